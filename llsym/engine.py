"""llsym: path-wise (KLEE-style) symbolic executor for the LLVM IR rustc emits, z3 back end.

One path at a time; cursors, lengths and addresses stay concrete on a path, only values derived
from symbolic inputs are solver terms.  At every data-dependent branch the solver decides which
sides are feasible; assertions are decided as  pc /\\ not(cond)  unsat.
"""
import sys, time, os
import z3
from llparse import *
from solver import SolverLayer, Inconclusive

sys.setrecursionlimit(20000)
TRACE = int(os.environ.get("LLSYM_TRACE", "0") or 0)     # development aid: keep the last N executed instructions


class Undef:
    __slots__ = ()

    def __repr__(self):
        return "UNDEF"


UNDEF = Undef()


class PU:
    """integer that is undefined in some bits (mask m, concrete) and has value v (int or z3 term, undefined bits
    zeroed) elsewhere: what a load from partly initialised memory yields.  trunc / zext / and / or / xor / constant
    shifts propagate the mask; when it becomes empty the value is ordinary again; any other use is a use of
    uninitialised data."""
    __slots__ = ("v", "m", "w")

    def __init__(self, v, m, w):
        self.v = v
        self.m = m
        self.w = w

    def __repr__(self):
        return "PU(%s,undef=%x,w=%d)" % (self.v, self.m, self.w)


def mkpu(v, m, w):
    m &= (1 << w) - 1
    if m == 0:
        return v
    if m == (1 << w) - 1:
        return UNDEF
    return PU(v, m, w)


class Ptr:
    __slots__ = ("obj", "off")

    def __init__(self, obj, off):
        self.obj = obj
        self.off = off

    def __repr__(self):
        return "Ptr(%s,%s)" % (self.obj, self.off)


class FnPtr:
    __slots__ = ("name",)

    def __init__(self, name):
        self.name = name


class IntPtr:
    """pointer-typed value that only exists as an integer term (e.g. enum tag parked in pointer bits)"""
    __slots__ = ("v",)

    def __init__(self, v):
        self.v = v


NULL = Ptr(0, 0)
I1 = IntTy(1)


class Obj:
    __slots__ = ("id", "size", "data", "const", "alive", "name", "owner", "base", "kind", "sym")

    def __init__(self, id, size, data, const, name, owner, base, kind):
        self.sym = False
        self.id = id
        self.size = size
        self.data = data
        self.const = const
        self.alive = True
        self.name = name
        self.owner = owner
        self.base = base
        self.kind = kind


class Frame:
    __slots__ = ("fn", "regs", "block", "prev", "idx", "ret_to", "allocas", "code", "ret_lab")

    def __init__(self, fn):
        self.fn = fn
        self.regs = {}
        self.block = None
        self.prev = None
        self.idx = 0
        self.ret_to = None
        self.allocas = []
        self.code = None
        self.ret_lab = None


class PathEnd(Exception):
    def __init__(self, kind, msg="", aid=None):
        self.kind = kind
        self.msg = msg
        self.aid = aid


def is_sym(x):
    return isinstance(x, z3.ExprRef)


def mask(w):
    return (1 << w) - 1


def to_signed(v, w):
    return v - (1 << w) if v >> (w - 1) else v


_BVV = {}


def bvv(v, w):
    k = (v, w)
    r = _BVV.get(k)
    if r is None:
        r = _BVV[k] = z3.BitVecVal(v, w)
    return r


def bv(x, w):
    if isinstance(x, int):
        return bvv(x, w)
    if z3.is_bool(x):
        return z3.If(x, bvv(1, w), bvv(0, w))
    return x


def tobool(x):
    if isinstance(x, int):
        return z3.BoolVal(bool(x & 1))
    if z3.is_bool(x):
        return x
    return x == bvv(1, 1)


def simp(e):
    if isinstance(e, z3.ExprRef):
        e = z3.simplify(e)
        if z3.is_bv_value(e):
            return e.as_long()
        if z3.is_true(e):
            return 1
        if z3.is_false(e):
            return 0
    return e


class State:
    __slots__ = ("frames", "mem", "pc", "pc_ids", "lpc", "lpc_ids", "grp", "model", "token", "nsym", "syms",
                 "steps", "outs", "draws", "expect_panic", "reached", "depth", "bounds")

    def __init__(self):
        self.frames = []
        self.mem = {}
        self.pc = []
        self.pc_ids = []
        self.lpc = []
        self.lpc_ids = []
        self.grp = {}
        self.model = {}
        self.token = object()
        self.nsym = 0
        self.syms = []
        self.steps = 0
        self.outs = []
        self.draws = []       # (tag, width, z3 const or int)
        self.expect_panic = 0
        self.reached = set()
        self.depth = 0
        self.bounds = {}       # bare symbol name -> (lo, hi): unsigned interval implied by the path condition

    def fork(self):
        s = State()
        fs = []
        for f in self.frames:
            g = Frame(f.fn)
            g.regs = dict(f.regs)
            g.block = f.block
            g.prev = f.prev
            g.idx = f.idx
            g.ret_to = f.ret_to
            g.allocas = list(f.allocas)
            g.code = f.code
            g.ret_lab = f.ret_lab
            fs.append(g)
        s.frames = fs
        s.mem = dict(self.mem)
        s.pc = list(self.pc)
        s.pc_ids = list(self.pc_ids)
        s.lpc = list(self.lpc)
        s.lpc_ids = list(self.lpc_ids)
        s.grp = dict(self.grp)
        s.model = self.model
        s.nsym = self.nsym
        s.syms = list(self.syms)
        s.steps = self.steps
        s.outs = list(self.outs)
        s.draws = list(self.draws)
        s.expect_panic = self.expect_panic
        s.reached = set(self.reached)
        s.depth = self.depth + 1
        s.bounds = dict(self.bounds)
        self.token = object()
        s.token = object()
        return s

    def wobj(self, oid):
        o = self.mem[oid]
        if o.owner is not self.token:
            d = o.data
            n = Obj(o.id, o.size, list(d) if d is not None else None, o.const, o.name, self.token, o.base, o.kind)
            n.alive = o.alive
            n.sym = o.sym
            self.mem[oid] = n
            return n
        return o


PANIC_MARKERS = ("9panicking", "panicking", "panic_fmt", "panic_bounds_check", "unwrap_failed", "expect_failed",
                 "slice_start_index", "slice_end_index", "slice_index_order", "slice_index_fail", "slice_error_fail",
                 "handle_alloc_error", "capacity_overflow", "7raw_vec12handle_error", "raw_vec12handle_error",
                 "panic_nounwind", "panic_cannot_unwind", "assert_failed", "panic_const", "begin_panic",
                 "rust_begin_unwind", "rust_panic", "core6option13unwrap_failed", "core6result13unwrap_failed",
                 "len_mismatch_fail", "copy_from_slice", "3fmt9Formatter", "explicit_failed", "panic_display",
                 "panic_explicit", "panic_str", "index_fail", "__rust_start_panic", "_Unwind_Resume",
                 "3str16slice_error_fail", "alloc5alloc18handle_alloc_error")
# "copy_from_slice" is matched only together with len_mismatch (see is_panic_name)


def is_panic_name(name):
    if "copy_from_slice" in name:
        return "len_mismatch_fail" in name
    if "3fmt9Formatter" in name:
        return False
    for m in PANIC_MARKERS:
        if m in name:
            return True
    return False


class Engine:
    def __init__(self, mod, max_steps=3_000_000, solver_timeout_ms=120000):
        self.mod = mod
        self.sl = SolverLayer(solver_timeout_ms)
        self.next_obj = 1
        self.next_base = 0x100000
        self.gobj = {}
        self.tables = {}         # (obj id, nbytes) -> z3 func
        self.base_state = State()
        self.max_steps = max_steps
        self.params = {}
        self.concrete_syms = None    # list of ints: run concretely (self-test / replay inside llsym)
        self.small_index_fork = 0    # see load_symoff
        self.init_globals()
        self.reset_stats()
        self.panic_names = {}
        self.fn_addrs = {}
        self.fn_by_addr = {}
        self.trace = []

    def reset_stats(self):
        self.stats = dict(paths=0, steps=0, forks=0, ok=0, infeasible=0, asserts_checked=0, asserts_sym=0,
                          table_facts=0, max_depth=0)
        self.funcs_seen = set()
        self.results = []
        self.stubs_used = set()
        self.reached = set()
        self.samples = []

    # ------------------------------------------------------------ memory
    def new_obj(self, st, size, data, const, name, kind, align=16):
        oid = self.next_obj
        self.next_obj += 1
        align = max(align, 1)
        base = (self.next_base + align - 1) // align * align
        self.next_base = base + max(size, 1) + 64
        o = Obj(oid, size, data, const, name, st.token, base, kind)
        st.mem[oid] = o
        return oid

    def init_globals(self):
        st = self.base_state
        for name, (ty, init, is_const, align) in self.mod.globals.items():
            size = self.mod.size(ty)
            oid = self.new_obj(st, size, None, is_const, name, "global", max(align, 16))
            self.gobj[name] = oid

    def gdata(self, st, oid):
        o = st.mem[oid]
        if o.data is None:
            ty, init, is_const, align = self.mod.globals[o.name]
            if init is None:
                buf = [0] * o.size      # external global: treat as zero
            else:
                buf = [0] * o.size
                self.fill_const(st, buf, 0, ty, init)
            if is_const:
                try:
                    buf = bytes(buf)
                except (TypeError, ValueError):
                    pass
            o.data = buf
            # share with the base state so that later paths do not re-materialise
            b = self.base_state.mem.get(oid)
            if b is not None and b.data is None:
                b.data = buf if isinstance(buf, bytes) else list(buf)
        return o

    def fill_const(self, st, buf, off, ty, c):
        ty = self.mod.resolve(ty)
        k = c[0]
        m = self.mod
        if k == "zero" or k == "null":
            return
        if k == "undef":
            for i in range(m.size(ty)):
                buf[off + i] = None
            return
        if k == "int":
            n = m.store_size(ty)
            v = c[1] & mask(8 * n)
            buf[off:off + n] = v.to_bytes(n, "little")
            return
        if k == "bytes":
            b = c[1]
            buf[off:off + len(b)] = b
            return
        if k == "agg":
            if ty.k == "struct":
                offs = m.offsets(ty)
                for (et, ec), eo in zip(c[1], offs):
                    self.fill_const(st, buf, off + eo, et, ec)
            else:
                es = m.size(ty.el)
                for i, (et, ec) in enumerate(c[1]):
                    self.fill_const(st, buf, off + i * es, et, ec)
            return
        if k in ("global", "cgep", "ccast", "cbin"):
            v = self.eval_const(st, ty, c)
            self.put_value(buf, off, ty, v)
            return
        raise Exception("fill_const %r" % (c,))

    def put_value(self, buf, off, ty, v):
        ty = self.mod.resolve(ty)
        if isinstance(v, int):
            n = self.mod.store_size(ty)
            buf[off:off + n] = (v & mask(8 * n)).to_bytes(n, "little")
            return
        if v is UNDEF:
            n = self.mod.store_size(ty)
            for i in range(n):
                buf[off + i] = None
            return
        if isinstance(v, PU):
            n = self.mod.store_size(ty)
            tmp = [0] * n
            self.put_value(tmp, 0, ty, v.v)
            for i in range(n):
                buf[off + i] = None if (v.m >> (8 * i)) & 0xFF else tmp[i]
            return
        if isinstance(v, (Ptr, FnPtr)):
            for i in range(8):
                buf[off + i] = ("pb", v, i)
            return
        if isinstance(v, IntPtr):
            self.put_value(buf, off, IntTy(64), v.v)
            return
        if isinstance(v, list):
            if ty.k == "struct":
                for ev, et, eo in zip(v, ty.els, self.mod.offsets(ty)):
                    self.put_value(buf, off + eo, et, ev)
            else:
                es = self.mod.size(ty.el)
                for i, ev in enumerate(v):
                    self.put_value(buf, off + i * es, ty.el, ev)
            return
        # symbolic scalar
        n = self.mod.store_size(ty)
        if z3.is_bool(v):
            v = z3.If(v, bvv(1, 8 * n), bvv(0, 8 * n))
        elif v.size() < 8 * n:
            v = z3.ZeroExt(8 * n - v.size(), v)
        if n == 1:
            buf[off] = v
        else:
            for i in range(n):
                buf[off + i] = ("x", v, i)

    def eval_const(self, st, ty, c):
        k = c[0]
        if k == "int":
            t = self.mod.resolve(ty)
            return c[1] & mask(t.n) if t.k == "int" else c[1]
        if k == "null":
            return NULL
        if k == "undef":
            t = self.mod.resolve(ty)
            if t.k in ("struct", "arr", "vec"):
                return self.undef_agg(t)
            return UNDEF
        if k == "global":
            name = c[1]
            oid = self.gobj.get(name)
            if oid is not None:
                return Ptr(oid, 0)
            return FnPtr(name)
        if k == "zero":
            t = self.mod.resolve(ty)
            if t.k == "int":
                return 0
            if t.k == "ptr":
                return NULL
            if t.k == "struct":
                return [self.eval_const(st, e, c) for e in t.els]
            if t.k in ("arr", "vec"):
                return [self.eval_const(st, t.el, c) for _ in range(t.n)]
        if k == "agg":
            return [self.eval_const(st, et, ec) for et, ec in c[1]]
        if k == "cgep":
            _, bt, base, idx = c
            p = self.eval_const(st, PTR, base)
            vals = [self.eval_const(st, it, ic) for it, ic in idx]
            return self.gep(p, bt, vals)
        if k == "ccast":
            _, op, ft, cc, tt = c
            v = self.eval_const(st, ft, cc)
            return self.cast(st, op, ft, v, tt)
        if k == "cbin":
            _, op, t1, a, b = c
            t = self.mod.resolve(t1)
            return self.binop(op, t.n, self.eval_const(st, t1, a), self.eval_const(st, t1, b))
        if k == "bytes":
            return list(c[1])
        if k == "splat":
            t = self.mod.resolve(ty)
            return [self.eval_const(st, t.el, c[1]) for _ in range(t.n)]
        raise Exception("eval_const %r" % (c,))

    def gep(self, p, bt, idxs):
        m = self.mod
        if isinstance(p, IntPtr):
            p = self.resolve_intptr(self.cur, p)
        off = p.off
        t = bt
        first = True
        for iv in idxs:
            if first:
                sz = m.size(t)
                first = False
                off = self.addoff(off, iv, sz)
            else:
                t = m.resolve(t)
                if t.k == "struct":
                    o = m.offsets(t)[iv]
                    off = self.addoff(off, o, 1)
                    t = t.els[iv]
                else:
                    t = t.el
                    off = self.addoff(off, iv, m.size(t))
        if isinstance(p, FnPtr):
            if off == 0:
                return p
            raise PathEnd("unsupported", "gep on function pointer")
        return Ptr(p.obj, off)

    def addoff(self, off, iv, sz):
        if isinstance(iv, int) and isinstance(off, int):
            if iv >> 63:
                iv -= 1 << 64
            return off + iv * sz
        if iv is UNDEF or off is UNDEF or isinstance(iv, PU) or isinstance(off, PU):
            raise PathEnd("error", "pointer arithmetic on undef")
        a = bv(off & mask(64) if isinstance(off, int) else off, 64)
        b = bv(iv, 64)
        if is_sym(b) and b.size() < 64:
            b = z3.SignExt(64 - b.size(), b)
        r = simp(a + b * bvv(sz, 64))
        if isinstance(r, int) and r >> 63:
            r -= 1 << 64
        return r

    def resolve_intptr(self, st, p):
        v = simp(p.v) if is_sym(p.v) else p.v
        if not isinstance(v, int):
            # a term that is in fact constant under the path condition?
            cv = self.sl.eval_bv(st.model, v)
            if cv is None or self.feasible(st, v != bvv(cv, 64)) is not None:
                raise PathEnd("unsupported", "dereference of symbolic integer pointer")
            v = cv
        return self.int_to_ptr(st, v)

    def int_to_ptr(self, st, v):
        if v == 0:
            return NULL
        fn = self.fn_by_addr.get(v)
        if fn is not None:
            return FnPtr(fn)
        for o in st.mem.values():
            if o.base <= v <= o.base + o.size:
                return Ptr(o.id, v - o.base)
        return Ptr(0, v)

    def check_access(self, st, p, n, write):
        if isinstance(p, IntPtr):
            p = self.resolve_intptr(st, p)
        if isinstance(p, FnPtr) or p is UNDEF:
            raise PathEnd("error", "dereference of function pointer / undef")
        if p.obj == 0:
            raise PathEnd("error", "null or dangling (address %s) pointer dereference of %d bytes" % (p.off, n))
        o = st.mem.get(p.obj)
        if o is None or not o.alive:
            raise PathEnd("error", "use of dead object %s" % (o.name if o else p.obj))
        if o.data is None:
            o = self.gdata(st, p.obj)
        if write and o.const:
            raise PathEnd("error", "write to constant %s" % o.name)
        off = p.off
        if isinstance(off, int):
            if off < 0 or off + n > o.size:
                raise PathEnd("error", "out-of-bounds %s of %d bytes at offset %d of object %s (size %d)" % (
                    "write" if write else "read", n, off, o.name, o.size))
        else:
            if o.size < n:
                raise PathEnd("error", "out-of-bounds access of %d bytes on object %s (size %d)" % (n, o.name, o.size))
            bad = z3.UGT(off, bvv(o.size - n, 64))
            m = self.feasible(st, bad)
            if m is not None:
                st.model = m
                self.sl.add_constraint(st, bad)
                raise PathEnd("error", "out-of-bounds %s (symbolic offset) of %d bytes on object %s (size %d)" % (
                    "write" if write else "read", n, o.name, o.size))
        return o, p

    def load(self, st, ty, p, work=None):
        m = self.mod
        ty = m.resolve(ty)
        if ty.k in ("struct", "arr", "vec"):
            if isinstance(p, IntPtr):
                p = self.resolve_intptr(st, p)
            if ty.k == "struct":
                return [self.load(st, et, Ptr(p.obj, self.addoff(p.off, eo, 1)), work) for et, eo in
                        zip(ty.els, m.offsets(ty))]
            es = m.size(ty.el)
            return [self.load(st, ty.el, Ptr(p.obj, self.addoff(p.off, i * es, 1)), work) for i in range(ty.n)]
        n = m.store_size(ty)
        o, p = self.check_access(st, p, n, False)
        off = p.off
        if not isinstance(off, int):
            return self.load_symoff(st, o, ty, n, off, work)
        d = o.data
        if ty.k == "int":
            try:
                v = int.from_bytes(bytes(d[off:off + n]), "little")
                return v & mask(ty.n) if ty.n < 8 * n else v
            except (TypeError, ValueError):
                pass
        return self.assemble(st, ty, n, d[off:off + n])

    def assemble(self, st, ty, n, cells):
        c0 = cells[0]
        if ty.k == "ptr":
            if isinstance(c0, tuple) and c0[0] == "pb":
                ok = True
                for i, c in enumerate(cells):
                    if not (isinstance(c, tuple) and c[0] == "pb" and c[1] is c0[1] and c[2] == i):
                        ok = False
                        break
                if ok:
                    return c0[1]
            v = self.assemble(st, IntTy(64), 8, cells)
            if v is UNDEF:
                return UNDEF
            if isinstance(v, int):
                return self.int_to_ptr(st, v)
            return IntPtr(v)
        # whole-value fragments?
        if isinstance(c0, tuple) and c0[0] == "x" and c0[2] == 0:
            e = c0[1]
            if e.size() == 8 * n:
                ok = True
                for i in range(1, n):
                    c = cells[i]
                    if not (isinstance(c, tuple) and c[0] == "x" and c[1] is e and c[2] == i):
                        ok = False
                        break
                if ok:
                    if ty.k == "int" and ty.n < 8 * n:
                        r = simp(z3.Extract(ty.n - 1, 0, e))
                        if ty.n == 1 and not isinstance(r, int):
                            return simp(r == bvv(1, 1))
                        return r
                    return e
        if ty.k == "int" and ty.n > 1 and any(c is None for c in cells) and not all(c is None for c in cells):
            m = 0
            defined = []
            for i, c in enumerate(cells):
                if c is None:
                    m |= 0xFF << (8 * i)
                    defined.append(0)
                else:
                    defined.append(c)
            v = self.assemble(st, IntTy(8 * n), n, defined)
            if ty.n < 8 * n:
                v = self.cast(st, "trunc", IntTy(8 * n), v, ty)
            return mkpu(v, m, ty.n)
        parts = []
        for c in cells:
            if c is None:
                return UNDEF
            if isinstance(c, int):
                parts.append(bvv(c, 8))
            elif isinstance(c, tuple):
                if c[0] == "x":
                    parts.append(z3.Extract(8 * c[2] + 7, 8 * c[2], c[1]))
                else:
                    parts.append(bvv(self.pb_byte(st, c), 8))
            else:
                parts.append(c)
        parts.reverse()
        x = z3.Concat(*parts) if len(parts) > 1 else parts[0]
        if ty.k == "int" and ty.n < 8 * n:
            x = z3.Extract(ty.n - 1, 0, x)
            if ty.n == 1:
                return simp(x == bvv(1, 1))
        return simp(x)

    def fn_addr(self, name):
        a = self.fn_addrs.get(name)
        if a is None:
            a = 0x7f000000 + 16 * len(self.fn_addrs)
            self.fn_addrs[name] = a
            self.fn_by_addr[a] = name
        return a

    def ptr_addr(self, st, p):
        """integer value (int or BV64 term) of a pointer"""
        if isinstance(p, IntPtr):
            return p.v
        if isinstance(p, FnPtr):
            return self.fn_addr(p.name)
        if p.obj == 0:
            return p.off & mask(64) if isinstance(p.off, int) else p.off
        base = st.mem[p.obj].base
        if isinstance(p.off, int):
            return (base + p.off) & mask(64)
        return simp(bvv(base, 64) + p.off)

    def pb_byte(self, st, c):
        a = self.ptr_addr(st, c[1])
        if not isinstance(a, int):
            raise PathEnd("unsupported", "symbolic pointer bytes read as int")
        return (a >> (8 * c[2])) & 255

    def load_symoff(self, st, o, ty, n, off, work):
        if isinstance(o.data, bytes):
            if n not in (1, 2, 4, 8):
                raise PathEnd("unsupported", "symbolic-index read of %d bytes from constant table %s" % (n, o.name))
            key = (o.id, n)
            ent = self.tables.get(key)
            nent = o.size // n
            kbits = max(nent - 1, 1).bit_length()
            sh = n.bit_length() - 1
            if ent is None:
                f = z3.Function("tab_%d_%d" % (o.id, n), z3.BitVecSort(kbits), z3.BitVecSort(8 * n))
                d = o.data
                ents = [(k, int.from_bytes(d[k * n:k * n + n], "little")) for k in range(nent)]
                self.sl.add_table(f, ents, 8 * n, kbits)
                self.stats["table_facts"] += len(ents)
                self.tables[key] = f
            else:
                f = ent
            if n > 1:
                mis = self.feasible(st, z3.Extract(sh - 1, 0, off) != 0)
                if mis is not None:
                    raise PathEnd("unsupported", "unaligned symbolic-index read of constant table %s" % o.name)
            # check_access has shown  off <= size - n  on this path, so the entry number fits kbits bits
            idx = z3.simplify(z3.Extract(sh + kbits - 1, sh, off))
            if self.small_index_fork:
                # option (encoder checks): a read that can only reach a handful of entries is cheaper as a fork on
                # the index than as an uninterpreted-function term that every later scan has to reason about
                lo, hi = self.index_bounds(st, idx, nent, small_ok=True)
                if hi - lo + 1 <= self.small_index_fork and not self.sl.info(idx)[1]:
                    k = self.concretize(st, work, idx, "small table index")
                    return self.load(st, ty, Ptr(o.id, k * n), work)
            lo, hi = self.index_bounds(st, idx, nent)
            self.sl.ensure_table_range(f.name(), lo, hi)
            x = f(idx)
            if ty.k == "int" and ty.n < 8 * n:
                x = z3.Extract(ty.n - 1, 0, x)
                if ty.n == 1:
                    return x == bvv(1, 1)
            if ty.k == "ptr":
                raise PathEnd("unsupported", "pointer load from constant table at symbolic index")
            return x
        # mutable object: concretise the offset by forking over its feasible values
        k = self.concretize(st, work, off)
        return self.load(st, ty, Ptr(o.id, k), work)

    def index_bounds(self, st, idx, nent, small_ok=False):
        """[min, max] of the bit-vector term idx over the current path condition, decided by the solver
        (binary search; the queries are cached across sibling paths).  Falls back to the whole table when the
        index itself depends on a table."""
        sl = self.sl
        if nent <= 512 and not small_ok:
            return 0, nent - 1
        # an index that is itself computed from a table value cannot be bounded without table reasoning:
        # assert the whole table.  (If only its slice involves tables the bounds queries are heavy, but they run
        # against the facts asserted so far, which a sharded job keeps small, and are cached across sibling paths.)
        if sl.info(idx)[1]:
            return 0, nent - 1
        w = idx.size()
        v0 = sl.eval_bv(st.model, idx)
        if v0 is None:
            return 0, nent - 1
        lo, hi = 0, v0
        while lo < hi:
            mid = (lo + hi) // 2
            m = self.sl.check(st, z3.ULE(idx, bvv(mid, w)))
            if m is None:
                lo = mid + 1
            else:
                v = sl.eval_bv(m, idx)
                hi = v if v is not None and v <= mid else mid
        mn = lo
        lo, hi = v0, min(nent - 1, (1 << w) - 1)
        while lo < hi:
            mid = (lo + hi + 1) // 2
            m = self.sl.check(st, z3.UGE(idx, bvv(mid, w)))
            if m is None:
                hi = mid - 1
            else:
                v = sl.eval_bv(m, idx)
                lo = v if v is not None and mid <= v <= hi else mid
        return mn, lo

    def store(self, st, ty, v, p, work=None):
        m = self.mod
        ty = m.resolve(ty)
        if ty.k in ("struct", "arr", "vec") and isinstance(v, list):
            if isinstance(p, IntPtr):
                p = self.resolve_intptr(st, p)
            if ty.k == "struct":
                for ev, et, eo in zip(v, ty.els, m.offsets(ty)):
                    self.store(st, et, ev, Ptr(p.obj, self.addoff(p.off, eo, 1)), work)
            else:
                es = m.size(ty.el)
                for i, ev in enumerate(v):
                    self.store(st, ty.el, ev, Ptr(p.obj, self.addoff(p.off, i * es, 1)), work)
            return
        n = m.store_size(ty)
        o, p = self.check_access(st, p, n, True)
        off = p.off
        if not isinstance(off, int):
            off = self.concretize(st, work, off)
            if off < 0 or off + n > o.size:
                raise PathEnd("error", "out-of-bounds write (symbolic offset) on %s" % o.name)
        o = st.wobj(p.obj)
        if isinstance(o.data, bytes):
            o.data = list(o.data)
        if not isinstance(v, int):
            o.sym = True
        self.put_value(o.data, off, ty, v)

    # ------------------------------------------------------------ solver interface
    def feasible(self, st, cond):
        """model of pc /\\ cond, or None"""
        if is_sym(cond):
            cond = simp(cond)
        if isinstance(cond, int):
            return st.model if cond & 1 else None
        r = self.sl.meval(st.model, cond)
        if r is True:
            self.sl.stats["model_hits"] += 1
            return st.model
        return self.sl.check(st, cond)

    def constrain(self, st, c):
        """add constraint c to the path condition of st; if it pins a bare input symbol to a constant, substitute
        that constant throughout the state so that the rest of the path runs concretely"""
        self.sl.add_constraint(st, c)
        if z3.is_eq(c):
            a, b = c.arg(0), c.arg(1)
            if z3.is_bv_value(a):
                a, b = b, a
            if z3.is_bv_value(b) and z3.is_const(a) and a.decl().kind() == z3.Z3_OP_UNINTERPRETED:
                self.propagate(st, a, b)

    @staticmethod
    def _bare(x):
        return z3.is_const(x) and x.decl().kind() == z3.Z3_OP_UNINTERPRETED and z3.is_bv(x)

    @staticmethod
    def _bare(x):
        return z3.is_const(x) and x.decl().kind() == z3.Z3_OP_UNINTERPRETED and z3.is_bv(x)

    def refuted_by_bounds(self, st, c):
        """True if c is  s == K  for a bare input symbol s and K lies outside [min s, max s] under the path
        condition.  The interval is computed by the solver (binary search, as for table indexes) the first time it
        is needed on a path and cached in the state: the path condition only grows, so a cached interval stays a
        sound over-approximation.  This turns the thousands of  needle == entry  questions of a table scan into
        two dozen solver queries."""
        if not z3.is_eq(c):
            return False
        a, b = c.arg(0), c.arg(1)
        if z3.is_bv_value(a):
            a, b = b, a
        if not (z3.is_bv_value(b) and self._bare(a)):
            return False
        name = str(a)
        iv = st.bounds.get(name)
        if iv is None:
            if self.sl.slice_key(st, c)[1]:
                return False            # the symbol is tied to table constraints: leave it to the heavy solver
            iv = self.index_bounds(st, a, 1 << a.size(), small_ok=True)
            st.bounds[name] = iv
        K = b.as_long()
        if K < iv[0] or K > iv[1]:
            self.stats["refuted_by_bounds"] = self.stats.get("refuted_by_bounds", 0) + 1
            return True
        return False

    def propagate(self, st, sym, val):
        self.stats["propagated"] = self.stats.get("propagated", 0) + 1
        pair = (sym, val)

        def sub(v):
            if isinstance(v, z3.ExprRef):
                return simp(z3.substitute(v, pair))
            if isinstance(v, list):
                return [sub(x) for x in v]
            if isinstance(v, Ptr):
                if isinstance(v.off, z3.ExprRef):
                    o = simp(z3.substitute(v.off, pair))
                    if isinstance(o, int) and o >> 63:
                        o -= 1 << 64
                    return Ptr(v.obj, o)
                return v
            if isinstance(v, IntPtr):
                x = sub(v.v)
                return self.int_to_ptr(st, x) if isinstance(x, int) else IntPtr(x)
            if isinstance(v, PU):
                return PU(sub(v.v), v.m, v.w)
            return v
        for fr in st.frames:
            regs = fr.regs
            for k, v in regs.items():
                if not isinstance(v, (int, Undef)) and v is not None:
                    regs[k] = sub(v)
        for oid, o in list(st.mem.items()):
            if not o.sym or o.data is None or not o.alive:
                continue
            o = st.wobj(oid)
            d = o.data
            still = False
            i = 0
            n = len(d)
            while i < n:
                c = d[i]
                if isinstance(c, z3.ExprRef):
                    r = simp(z3.substitute(c, pair))
                    d[i] = r
                    if not isinstance(r, int):
                        still = True
                elif isinstance(c, tuple):
                    if c[0] == "x":
                        r = simp(z3.substitute(c[1], pair))
                        if isinstance(r, int):
                            # all fragments of this value are consecutive cells
                            nb = c[1].size() // 8
                            j = i - c[2]
                            for t in range(nb):
                                if 0 <= j + t < n:
                                    ct = d[j + t]
                                    if isinstance(ct, tuple) and ct[0] == "x" and ct[1] is c[1] and ct[2] == t:
                                        d[j + t] = (r >> (8 * t)) & 255
                        elif r is not c[1]:
                            nb = c[1].size() // 8
                            j = i - c[2]
                            old = c[1]
                            for t in range(nb):
                                if 0 <= j + t < n:
                                    ct = d[j + t]
                                    if isinstance(ct, tuple) and ct[0] == "x" and ct[1] is old and ct[2] == t:
                                        d[j + t] = ("x", r, t)
                            still = True
                        else:
                            still = True
                    else:
                        still = True     # pointer bytes
                i += 1
            o.sym = still
        st.outs = [sub(x) for x in st.outs]

    def concretize(self, st, work, x, what="value"):
        """fork over the feasible values of term x; the current state continues with one of them; the
        siblings re-execute the current instruction (so call this before any side effect)."""
        if isinstance(x, int):
            return x
        if work is None:
            raise PathEnd("unsupported", "symbolic %s where forking is not possible" % what)
        v = self.sl.eval_bv(st.model, x)
        if v is None:
            m = self.sl.check(st, None)
            st.model = m
            v = self.sl.eval_bv(m, x)
        w = x.size()
        eq = x == bvv(v, w)
        ne = z3.Not(eq)
        mo = self.sl.check(st, ne)
        if mo is not None:
            other = st.fork()
            self.stats["forks"] += 1
            other.model = mo
            self.sl.add_constraint(other, ne)
            work.append(other)
        self.constrain(st, z3.simplify(eq))
        return v

    # ------------------------------------------------------------ values
    def val(self, st, fr, ty, c):
        if c[0] == "reg":
            try:
                return fr.regs[c[1]]
            except KeyError:
                raise Exception("undefined reg %s in %s" % (c[1], fr.fn.name))
        return self.eval_const(st, ty, c)

    def cast(self, st, op, ft, v, tt):
        m = self.mod
        ft = m.resolve(ft)
        tt = m.resolve(tt)
        if v is UNDEF:
            if op == "zext" and ft.k == "int" and tt.k == "int":
                return PU(0, mask(ft.n), tt.n)      # the extension bits are defined zeros
            return UNDEF
        if isinstance(v, PU):
            if op == "trunc" and tt.k == "int":
                return mkpu(self.cast(st, op, ft, v.v, tt), v.m, tt.n)
            if op == "zext" and tt.k == "int":
                return mkpu(self.cast(st, op, ft, v.v, tt), v.m, tt.n)
            if op == "sext" and tt.k == "int":
                m = v.m | ((mask(tt.n) ^ mask(ft.n)) if (v.m >> (ft.n - 1)) & 1 else 0)
                return mkpu(self.cast(st, op, ft, v.v, tt), m, tt.n)
            if op == "bitcast":
                return v
            return UNDEF
        if op == "bitcast" or op == "addrspacecast":
            if ft.k == "vec" or tt.k == "vec":
                raise PathEnd("unsupported", "vector bitcast")
            return v
        if op == "ptrtoint":
            a = self.ptr_addr(st, v)
            if isinstance(a, int):
                return a & mask(tt.n)
            if tt.n < 64:
                return simp(z3.Extract(tt.n - 1, 0, a))
            return a
        if op == "inttoptr":
            if isinstance(v, int):
                return self.int_to_ptr(st, v)
            return IntPtr(v)
        if op in ("zext", "sext", "trunc"):
            if tt.k == "vec":
                raise PathEnd("unsupported", "vector cast")
            if isinstance(v, int):
                if op == "zext":
                    return v
                if op == "sext":
                    return to_signed(v, ft.n) & mask(tt.n)
                return v & mask(tt.n)
            if z3.is_bool(v):
                if op == "zext":
                    return z3.If(v, bvv(1, tt.n), bvv(0, tt.n))
                if op == "sext":
                    return z3.If(v, bvv(mask(tt.n), tt.n), bvv(0, tt.n))
                return v
            if op == "zext":
                return z3.ZeroExt(tt.n - ft.n, v)
            if op == "sext":
                return z3.SignExt(tt.n - ft.n, v)
            r = simp(z3.Extract(tt.n - 1, 0, v))
            if tt.n == 1 and not isinstance(r, int):
                return simp(r == bvv(1, 1))
            return r
        raise PathEnd("unsupported", "cast " + op)

    def binop(self, op, w, a, b, flags=()):
        if isinstance(a, PU) or isinstance(b, PU):
            return self.pu_binop(op, w, a, b)
        if (a is UNDEF or b is UNDEF) and w > 1 and op in ("shl", "lshr", "and", "or") and not (a is UNDEF and b is UNDEF):
            # a fully undefined integer still yields defined bits under a constant shift or against a constant mask
            if isinstance(a, (int, Undef)) and isinstance(b, (int, Undef)):
                return self.pu_binop(op, w, a, b)
        if isinstance(a, int) and isinstance(b, int):
            M = (1 << w) - 1
            if op == "add":
                return (a + b) & M
            if op == "sub":
                return (a - b) & M
            if op == "mul":
                return (a * b) & M
            if op == "and":
                return a & b
            if op == "or":
                return a | b
            if op == "xor":
                return a ^ b
            if op == "shl":
                return (a << b) & M if b < w else UNDEF
            if op == "lshr":
                return a >> b if b < w else UNDEF
            if op == "ashr":
                return (to_signed(a, w) >> b) & M if b < w else UNDEF
            if op in ("udiv", "urem", "sdiv", "srem"):
                if b == 0:
                    raise PathEnd("error", "division by zero")
                if op == "udiv":
                    return a // b
                if op == "urem":
                    return a % b
                sa, sb = to_signed(a, w), to_signed(b, w)
                q = abs(sa) // abs(sb)
                q = -q if (sa < 0) != (sb < 0) else q
                if op == "sdiv":
                    return q & M
                return (sa - q * sb) & M
            raise PathEnd("unsupported", op)
        if a is UNDEF or b is UNDEF:
            return UNDEF
        if isinstance(a, (Ptr, IntPtr, FnPtr)) or isinstance(b, (Ptr, IntPtr, FnPtr)):
            raise PathEnd("unsupported", "arithmetic on pointer value")
        if w == 1:
            A = tobool(a)
            B = tobool(b)
            if op == "and":
                return simp(z3.And(A, B))
            if op == "or":
                return simp(z3.Or(A, B))
            if op in ("xor", "add", "sub"):
                return simp(z3.Xor(A, B))
            raise PathEnd("unsupported", "i1 " + op)
        A = bv(a, w)
        B = bv(b, w)
        if op == "add":
            r = A + B
        elif op == "sub":
            r = A - B
        elif op == "mul":
            r = A * B
        elif op == "and":
            r = A & B
        elif op == "or":
            r = A | B
        elif op == "xor":
            r = A ^ B
        elif op == "shl":
            r = A << B
        elif op == "lshr":
            r = z3.LShR(A, B)
        elif op == "ashr":
            r = A >> B
        elif op in ("udiv", "urem", "sdiv", "srem"):
            if self.feasible(self.cur, B == bvv(0, w)) is not None:
                raise PathEnd("error", "division by zero possible")
            if op == "udiv":
                r = z3.UDiv(A, B)
            elif op == "urem":
                r = z3.URem(A, B)
            elif op == "sdiv":
                r = A / B
            else:
                r = z3.SRem(A, B)
        else:
            raise PathEnd("unsupported", op)
        return simp(r)

    def pu_binop(self, op, w, a, b):
        """bitwise operations on partly undefined integers"""
        M = mask(w)
        if a is UNDEF:
            a = PU(0, M, w)
        if b is UNDEF:
            if op in ("shl", "lshr"):
                return UNDEF
            b = PU(0, M, w)
        av, am = (a.v, a.m) if isinstance(a, PU) else (a, 0)
        bv_, bm = (b.v, b.m) if isinstance(b, PU) else (b, 0)
        if op in ("shl", "lshr") and bm == 0 and isinstance(bv_, int) and bv_ < w:
            if op == "shl":
                return mkpu(self.binop(op, w, av, bv_), (am << bv_) & M, w)
            return mkpu(self.binop(op, w, av, bv_), am >> bv_, w)
        if op == "and":
            # a bit is defined (0) where either operand is a defined 0
            z_a = (~av & ~am & M) if isinstance(av, int) else 0
            z_b = (~bv_ & ~bm & M) if isinstance(bv_, int) else 0
            m = (am | bm) & ~z_a & ~z_b
            return mkpu(self.binop(op, w, av, bv_), m, w)
        if op == "or":
            o_a = (av & ~am & M) if isinstance(av, int) else 0
            o_b = (bv_ & ~bm & M) if isinstance(bv_, int) else 0
            m = (am | bm) & ~o_a & ~o_b
            r = self.binop(op, w, av, bv_)
            # undefined bits are kept zero in the value part
            r = self.binop("and", w, r, M & ~m)
            return mkpu(r, m, w)
        if op == "xor":
            m = am | bm
            r = self.binop("and", w, self.binop(op, w, av, bv_), M & ~m)
            return mkpu(r, m, w)
        if op in ("add", "sub", "mul"):
            # the low k bits of a sum / difference / product depend only on the low k bits of the operands: every bit
            # below the lowest undefined operand bit is defined, everything from there up may be reached by a carry
            u = am | bm
            k = (u & -u).bit_length() - 1
            m = M & ~((1 << k) - 1)
            r = self.binop("and", w, self.binop(op, w, av, bv_), M & ~m)
            return mkpu(r, m, w)
        return UNDEF

    def icmp(self, st, pred, ty, a, b):
        ty = self.mod.resolve(ty)
        if isinstance(a, PU) or isinstance(b, PU):
            return UNDEF
        if a is UNDEF or b is UNDEF:
            return UNDEF
        if ty.k == "ptr":
            if isinstance(a, Ptr) and isinstance(b, Ptr) and a.obj == b.obj:
                a, b = a.off, b.off
                if isinstance(a, int) and isinstance(b, int):
                    # offsets may be negative python ints; compare as such (same object)
                    if pred == "eq":
                        return int(a == b)
                    if pred == "ne":
                        return int(a != b)
                    p = pred[1:]
                    return int({"gt": a > b, "ge": a >= b, "lt": a < b, "le": a <= b}[p])
                if isinstance(a, int):
                    a &= mask(64)
                if isinstance(b, int):
                    b &= mask(64)
                # same-object comparison with symbolic offsets: unsigned on wrapped offsets is wrong for
                # negatives, but in-bounds offsets are non-negative
            else:
                a, b = self.ptr_addr(st, a), self.ptr_addr(st, b)
            w = 64
        elif ty.k == "int":
            w = ty.n
        else:
            raise PathEnd("unsupported", "icmp on %r" % ty)
        if isinstance(a, int) and isinstance(b, int):
            if pred == "eq":
                return int(a == b)
            if pred == "ne":
                return int(a != b)
            if pred[0] == "s":
                a = to_signed(a, w)
                b = to_signed(b, w)
            p = pred[1:]
            return int({"gt": a > b, "ge": a >= b, "lt": a < b, "le": a <= b}[p])
        if w == 1:
            A = tobool(a)
            B = tobool(b)
            if pred == "eq":
                return simp(A == B)
            if pred == "ne":
                return simp(z3.Xor(A, B))
            if pred == "ugt":
                return simp(z3.And(A, z3.Not(B)))
            if pred == "ult":
                return simp(z3.And(z3.Not(A), B))
            if pred == "uge":
                return simp(z3.Or(A, z3.Not(B)))
            if pred == "ule":
                return simp(z3.Or(z3.Not(A), B))
            raise PathEnd("unsupported", "i1 icmp " + pred)
        A = bv(a, w)
        B = bv(b, w)
        if pred == "eq":
            r = A == B
        elif pred == "ne":
            r = A != B
        elif pred == "ugt":
            r = z3.UGT(A, B)
        elif pred == "uge":
            r = z3.UGE(A, B)
        elif pred == "ult":
            r = z3.ULT(A, B)
        elif pred == "ule":
            r = z3.ULE(A, B)
        elif pred == "sgt":
            r = A > B
        elif pred == "sge":
            r = A >= B
        elif pred == "slt":
            r = A < B
        elif pred == "sle":
            r = A <= B
        else:
            raise PathEnd("unsupported", "icmp " + pred)
        return simp(r)

    # ------------------------------------------------------------ instruction parsing (shared cache)
    def code_of(self, fn):
        return self.mod.code.code_of(fn)

    # ------------------------------------------------------------ execution
    def run(self, entry, params=None, path_budget=None, time_budget=None):
        self.params = params or {}
        fn = self.mod.funcs["@" + entry]
        st = self.base_state.fork()
        st.depth = 0
        self.push_frame(st, fn, [], None)
        work = [st]
        t0 = time.time()
        status = "done"
        while work:
            if path_budget is not None and self.stats["paths"] >= path_budget:
                status = "path-budget"
                break
            if time_budget is not None and time.time() - t0 > time_budget:
                status = "time-budget"
                break
            st = work.pop()
            try:
                self.exec_path(st, work)
                kind, msg, aid = "ok", "", None
            except PathEnd as e:
                kind, msg, aid = e.kind, e.msg, e.aid
                if kind == "panic" and st.expect_panic:
                    kind = "ok"
                    st.reached.add(("expected_panic", st.expect_panic))
                if TRACE and kind in ("error", "unsupported"):
                    for t in self.trace[-TRACE:]:
                        sys.stderr.write("   %s | %s | %s\n" % t)
                    self.trace = []
                if kind in ("error", "unsupported", "panic") and st.frames:
                    fr = st.frames[-1]
                    where = " <- ".join(self.short(f.fn.name) for f in reversed(st.frames[-4:]))
                    msg += " @ " + where
            except Inconclusive as e:
                kind, msg, aid = "inconclusive", str(e), None
            self.stats["paths"] += 1
            self.stats["steps"] += st.steps
            if st.depth > self.stats["max_depth"]:
                self.stats["max_depth"] = st.depth
            if kind == "ok":
                self.stats["ok"] += 1
                self.reached |= st.reached
                if len(self.samples) < 6 or (self.stats["ok"] % 97 == 0 and len(self.samples) < 24):
                    self.samples.append(self.describe(st))
            elif kind == "infeasible":
                self.stats["infeasible"] += 1
            else:
                if kind == "fail":
                    self.reached |= st.reached      # witnesses reached before the failing assertion still count
                self.results.append(dict(kind=kind, msg=msg, aid=aid, draws=self.draw_values(st),
                                         outs=[o if isinstance(o, int) else str(o) for o in st.outs]))
        self.stats["wall"] = time.time() - t0
        self.stats["left_in_worklist"] = len(work)
        return status

    def draw_values(self, st):
        out = []
        for tag, w, s in st.draws:
            if isinstance(s, int):
                out.append([tag, w, s])
            else:
                out.append([tag, w, st.model.get(str(s), 0)])
        return out

    def describe(self, st):
        return dict(inputs=self.draw_values(st), path_constraints=len(st.pc), steps=st.steps,
                    reached=sorted(str(r) for r in st.reached)[:12])

    def short(self, name):
        d = self.mod.pretty.get(name)
        return d if d else name[-60:]

    def push_frame(self, st, fn, args, ret_to, ret_lab=None):
        fr = Frame(fn)
        fr.ret_to = ret_to
        fr.ret_lab = ret_lab
        regs = fr.regs
        for (t, name), a in zip(fn.params, args):
            regs[name] = a
        fr.block = fn.order[0]
        fr.idx = 0
        fr.prev = None
        fr.code = self.code_of(fn)
        st.frames.append(fr)
        if len(st.frames) > 400:
            raise PathEnd("bound", "call depth exceeded")
        self.funcs_seen.add(fn.name)

    def branch(self, st, work, cond):
        """decide a two-way branch; returns (taken, other_state_or_None)"""
        if isinstance(cond, int):
            return bool(cond & 1), None
        if cond is UNDEF or isinstance(cond, PU):
            raise PathEnd("error", "branch on undef/uninitialised value")
        c = cond if z3.is_bool(cond) else (cond == bvv(1, 1))
        c = z3.simplify(c)
        if z3.is_true(c):
            return True, None
        if z3.is_false(c):
            return False, None
        nc = z3.simplify(z3.Not(c))
        sl = self.sl
        mt = mf = None
        r = sl.meval(st.model, c)
        if r is True:
            mt = st.model
            sl.stats["model_hits"] += 1
        elif r is False:
            mf = st.model
            sl.stats["model_hits"] += 1
        if mt is None and not self.refuted_by_bounds(st, c):
            mt = sl.check(st, c)
        if mf is None:
            mf = sl.check(st, nc)
        if mt is not None and mf is not None:
            other = st.fork()
            self.stats["forks"] += 1
            other.model = mf
            self.constrain(other, nc)
            st.model = mt
            self.constrain(st, c)
            work.append(other)
            return True, other
        if mt is not None:
            st.model = mt
            return True, None
        if mf is not None:
            st.model = mf
            return False, None
        raise PathEnd("infeasible")

    def exec_path(self, st, work):
        mod = self.mod
        self.cur = st
        val = self.val
        max_steps = self.max_steps
        while True:
            fr = st.frames[-1]
            ins = fr.code[fr.block][fr.idx]
            st.steps += 1
            if st.steps > max_steps:
                raise PathEnd("bound", "step budget exceeded")
            if TRACE:
                self.trace.append((self.short(fr.fn.name)[-40:], fr.block, fr.fn.blocks[fr.block][fr.idx].strip()[:170]))
                if len(self.trace) > 4 * TRACE:
                    del self.trace[:-TRACE]
            k = ins[0]
            if k == "bin":
                _, dst, op, ty, a, b, flags = ins
                t = mod.resolve(ty)
                if t.k != "int":
                    raise PathEnd("unsupported", "vector binop")
                fr.regs[dst] = self.binop(op, t.n, val(st, fr, ty, a), val(st, fr, ty, b), flags)
            elif k == "icmp":
                _, dst, pred, ty, a, b = ins
                fr.regs[dst] = self.icmp(st, pred, ty, val(st, fr, ty, a), val(st, fr, ty, b))
            elif k == "gep":
                _, dst, bt, base, idx = ins
                p = val(st, fr, PTR, base)
                if p is UNDEF:
                    raise PathEnd("error", "gep on undef pointer")
                fr.regs[dst] = self.gep(p, bt, [val(st, fr, it, ic) for it, ic in idx])
            elif k == "load":
                _, dst, ty, a = ins
                fr.regs[dst] = self.load(st, ty, val(st, fr, PTR, a), work)
            elif k == "store":
                _, ty, v, a = ins
                self.store(st, ty, val(st, fr, ty, v), val(st, fr, PTR, a), work)
            elif k == "phi":
                block = fr.code[fr.block]
                j = fr.idx
                newvals = []
                prev = fr.prev
                while True:
                    ins2 = block[j]
                    if ins2[0] != "phi":
                        break
                    newvals.append((ins2[1], val(st, fr, ins2[2], ins2[3][prev])))
                    j += 1
                regs = fr.regs
                for d, v in newvals:
                    regs[d] = v
                fr.idx = j
                continue
            elif k == "cast":
                _, dst, op, ft, v, tt = ins
                fr.regs[dst] = self.cast(st, op, ft, val(st, fr, ft, v), tt)
            elif k == "select":
                _, dst, ct, c, ty, a, b = ins
                cv = val(st, fr, ct, c)
                av = val(st, fr, ty, a)
                bvv_ = val(st, fr, ty, b)
                if isinstance(cv, int):
                    fr.regs[dst] = av if cv & 1 else bvv_
                elif cv is UNDEF or isinstance(cv, PU):
                    fr.regs[dst] = UNDEF
                else:
                    t = mod.resolve(ty)
                    if t.k == "int" and (isinstance(av, int) or is_sym(av)) and (isinstance(bvv_, int) or is_sym(bvv_)):
                        if t.n == 1:
                            fr.regs[dst] = simp(z3.If(tobool(cv), tobool(av), tobool(bvv_)))
                        else:
                            fr.regs[dst] = simp(z3.If(tobool(cv), bv(av, t.n), bv(bvv_, t.n)))
                    else:
                        taken, other = self.branch(st, work, cv)
                        if other is not None:
                            of = other.frames[-1]
                            of.regs[dst] = bvv_
                            of.idx += 1
                        fr.regs[dst] = av if taken else bvv_
            elif k == "jmp":
                fr.prev = fr.block
                fr.block = ins[1]
                fr.idx = 0
                continue
            elif k == "br":
                _, c, a, b = ins
                cv = val(st, fr, I1, c)
                taken, other = self.branch(st, work, cv)
                if other is not None:
                    of = other.frames[-1]
                    of.prev = of.block
                    of.block = b
                    of.idx = 0
                fr.prev = fr.block
                fr.block = a if taken else b
                fr.idx = 0
                continue
            elif k == "switch":
                _, ty, v, d, cases = ins
                x = val(st, fr, ty, v)
                t = mod.resolve(ty)
                if isinstance(x, int):
                    tgt = d
                    M = mask(t.n)
                    for cv, lab in cases:
                        if (cv & M) == x:
                            tgt = lab
                            break
                    fr.prev = fr.block
                    fr.block = tgt
                    fr.idx = 0
                    continue
                if x is UNDEF or isinstance(x, PU):
                    raise PathEnd("error", "switch on undef")
                tgt = None
                for cv, lab in cases:
                    taken, other = self.branch(st, work, x == bvv(cv & mask(t.n), t.n))
                    # 'other' stays at the switch instruction with x != cv in its path condition
                    if taken:
                        tgt = lab
                        break
                if tgt is None:
                    tgt = d
                fr.prev = fr.block
                fr.block = tgt
                fr.idx = 0
                continue
            elif k == "ret":
                _, ty, v = ins
                rv = val(st, fr, ty, v) if ty is not None else None
                for oid in fr.allocas:
                    o = st.wobj(oid)
                    o.alive = False
                    o.data = None
                st.frames.pop()
                if not st.frames:
                    return
                caller = st.frames[-1]
                if fr.ret_to is not None:
                    caller.regs[fr.ret_to] = rv
                if fr.ret_lab is not None:
                    caller.prev = caller.block
                    caller.block = fr.ret_lab
                    caller.idx = 0
                else:
                    caller.idx += 1
                continue
            elif k == "call":
                if self.do_call(st, fr, ins, work):
                    continue
                if ins[5] is not None:
                    fr.prev = fr.block
                    fr.block = ins[5]
                    fr.idx = 0
                    continue
            elif k == "asm":
                _, dst, rt, text, cons, args, normal = ins
                if "cpuid" in text:
                    # environment stub: a CPU that reports nothing (no SSE4.2, no AVX2, no OS XSAVE)
                    self.stubs_used.add("cpuid -> all-zero registers (no optional CPU features)")
                    fr.regs[dst] = [0, 0, 0, 0]
                elif "xgetbv" in text:
                    fr.regs[dst] = [0, 0]
                elif text.strip('"') == "" or (text.strip('"').startswith("/*") and text.strip('"').endswith("*/")):
                    # empty / comment-only asm: an optimisation barrier (core::hint::black_box and friends).
                    # With a result it returns its (tied) input operand unchanged.
                    if dst is not None:
                        vals = [self.val(st, fr, at, ac) for at, ac in args]
                        if len(vals) != 1:
                            raise PathEnd("unsupported", "barrier asm with %d operands" % len(vals))
                        fr.regs[dst] = vals[0]
                else:
                    raise PathEnd("unsupported", "inline asm %s" % text[:60])
                if normal is not None:
                    fr.prev = fr.block
                    fr.block = normal
                    fr.idx = 0
                    continue
            elif k == "alloca":
                _, dst, ty, cnt, align = ins
                n = mod.size(ty)
                if cnt is not None:
                    c = val(st, fr, cnt[0], cnt[1])
                    c = self.concretize(st, work, c, "alloca count")
                    n *= c
                oid = self.new_obj(st, n, [None] * n, False, "alloca %s in %s" % (dst, self.short(fr.fn.name)), "stack", align)
                fr.allocas.append(oid)
                fr.regs[dst] = Ptr(oid, 0)
            elif k == "extractvalue":
                _, dst, ty, v, idx = ins
                x = val(st, fr, ty, v)
                for i in idx:
                    if x is UNDEF:
                        break
                    x = x[i]
                fr.regs[dst] = x
            elif k == "insertvalue":
                _, dst, ty, v, et, ev, idx = ins
                x = val(st, fr, ty, v)
                if x is UNDEF:
                    x = self.undef_agg(mod.resolve(ty))
                fr.regs[dst] = self.ins_agg(x, idx, val(st, fr, et, ev))
            elif k == "freeze":
                _, dst, ty, v = ins
                x = val(st, fr, ty, v)
                fr.regs[dst] = 0 if x is UNDEF else (x.v if isinstance(x, PU) else x)
            elif k == "unreachable":
                raise PathEnd("error", "reached 'unreachable' (undefined behaviour)")
            elif k == "nop":
                pass
            else:
                raise PathEnd("unsupported", "instruction %s" % (ins[1] if len(ins) > 1 else k))
            fr.idx += 1

    def undef_agg(self, t):
        t = self.mod.resolve(t)
        if t.k == "struct":
            return [self.undef_agg(e) if self.mod.resolve(e).k in ("struct", "arr") else UNDEF for e in t.els]
        if t.k in ("arr", "vec"):
            return [self.undef_agg(t.el) if self.mod.resolve(t.el).k in ("struct", "arr") else UNDEF for _ in range(t.n)]
        return UNDEF

    def ins_agg(self, x, idx, v):
        x = list(x)
        if len(idx) == 1:
            x[idx[0]] = v
        else:
            x[idx[0]] = self.ins_agg(x[idx[0]], idx[1:], v)
        return x

    # ------------------------------------------------------------ calls
    def do_call(self, st, fr, ins, work):
        _, dst, rt, callee, args, normal = ins
        mod = self.mod
        if callee[0] == "%":
            f = fr.regs[callee]
            if isinstance(f, IntPtr):
                f = self.resolve_intptr(st, f)
            if not isinstance(f, FnPtr):
                raise PathEnd("error", "indirect call through non-function value")
            callee = f.name
        name = callee[1:].strip('"')
        isp = self.panic_names.get(name)
        if isp is None:
            isp = self.panic_names[name] = is_panic_name(name)
        if isp:
            raise PathEnd("panic", "panic via %s" % self.short(callee))
        fn = mod.funcs.get(callee)
        if fn is not None and not name.startswith("se_") and "___rust_" not in name and "__rust_" not in name[:8]:
            vals = [self.val(st, fr, at, ac) for at, ac in args if at.k != "metadata"]
            self.push_frame(st, fn, vals, dst, normal)
            return True

        def A(i):
            return self.val(st, fr, args[i][0], args[i][1])
        if name.startswith("llvm."):
            r = self.intrinsic(st, fr, name, args, A, rt, work)
        elif name.startswith("se_"):
            r = self.se_call(st, fr, name, args, A, work)
        else:
            r = self.extern_call(st, fr, name, args, A, work, fn)
            if r is NotImplemented:
                # defined function with a reserved-looking name: execute its body
                vals = [self.val(st, fr, at, ac) for at, ac in args if at.k != "metadata"]
                self.push_frame(st, fn, vals, dst, normal)
                return True
        if dst is not None:
            fr.regs[dst] = r
        return False

    def alloc(self, st, work, size, align, zero):
        size = self.concretize(st, work, size, "allocation size")
        if not isinstance(align, int):
            align = 16
        if size > (1 << 24):
            raise PathEnd("bound", "allocation of %d bytes" % size)
        oid = self.new_obj(st, size, [0 if zero else None] * size, False, "heap#%d" % self.next_obj, "heap", max(align, 16))
        return Ptr(oid, 0)

    def dealloc(self, st, p):
        if isinstance(p, IntPtr):
            p = self.resolve_intptr(st, p)
        if not isinstance(p, Ptr) or p.obj == 0:
            raise PathEnd("error", "free of invalid pointer")
        o = st.mem.get(p.obj)
        if o is None or not o.alive or o.kind != "heap" or p.off != 0:
            raise PathEnd("error", "invalid or double free")
        o = st.wobj(p.obj)
        o.alive = False
        o.data = None

    def extern_call(self, st, fr, name, args, A, work, fn):
        if name.endswith("__rust_no_alloc_shim_is_unstable_v2") or name.endswith("__rust_no_alloc_shim_is_unstable"):
            return None
        if name.endswith("__rust_alloc") or name.endswith("__rust_alloc_zeroed") or name.endswith("__rdl_alloc") or name.endswith("__rdl_alloc_zeroed"):
            return self.alloc(st, work, A(0), A(1), name.endswith("zeroed"))
        if name == "malloc":
            return self.alloc(st, work, A(0), 16, False)
        if name == "calloc":
            a, b = A(0), A(1)
            return self.alloc(st, work, self.binop("mul", 64, a, b), 16, True)
        if name.endswith("__rust_dealloc") or name.endswith("__rdl_dealloc") or name == "free":
            p = A(0)
            if name == "free" and isinstance(p, Ptr) and p.obj == 0 and p.off == 0:
                return None
            self.dealloc(st, p)
            return None
        if name.endswith("__rust_realloc") or name.endswith("__rdl_realloc") or name == "realloc":
            p = A(0)
            if name == "realloc":
                new = A(1)
            else:
                new = A(3)
            new = self.concretize(st, work, new, "realloc size")
            if isinstance(p, IntPtr):
                p = self.resolve_intptr(st, p)
            oo = st.mem[p.obj]
            if not oo.alive or oo.kind != "heap" or p.off != 0:
                raise PathEnd("error", "realloc of invalid pointer")
            data = list(oo.data[:min(oo.size, new)]) + [None] * max(0, new - oo.size)
            oid = self.new_obj(st, new, data, False, "heap#%d" % self.next_obj, "heap", 16)
            o = st.wobj(p.obj)
            o.alive = False
            o.data = None
            return Ptr(oid, 0)
        if name == "posix_memalign":
            pp, al, sz = A(0), A(1), A(2)
            r = self.alloc(st, work, sz, al, False)
            self.store(st, PTR, r, pp, work)
            return 0
        if name in ("bcmp", "memcmp"):
            a, b, n = A(0), A(1), A(2)
            n = self.concretize(st, work, n, "memcmp length")
            res = 0
            diff = None
            for i in range(n):
                x = self.load(st, IntTy(8), Ptr(a.obj, self.addoff(a.off, i, 1)), work)
                y = self.load(st, IntTy(8), Ptr(b.obj, self.addoff(b.off, i, 1)), work)
                if x is UNDEF or y is UNDEF:
                    raise PathEnd("error", "memcmp on uninitialised bytes")
                if isinstance(x, int) and isinstance(y, int):
                    if x != y:
                        if diff is None:
                            return (1 if x > y else mask(32))
                        # symbolic earlier bytes: fall through to term
                d = simp(bv(x, 8) != bv(y, 8))
                if isinstance(d, int):
                    if d:
                        c = simp(z3.UGT(bv(x, 8), bv(y, 8)))
                        t = bvv(1, 32) if c == 1 else bvv(mask(32), 32) if c == 0 else z3.If(c, bvv(1, 32), bvv(mask(32), 32))
                        if diff is None:
                            return simp(t)
                        diff.append((None, t))
                        break
                    continue
                if diff is None:
                    diff = []
                diff.append((d, z3.If(z3.UGT(bv(x, 8), bv(y, 8)), bvv(1, 32), bvv(mask(32), 32))))
            if diff is None:
                return 0
            r = bvv(0, 32)
            for d, t in reversed(diff):
                r = t if d is None else z3.If(d, t, r)
            return simp(r)
        if name == "strlen":
            p = A(0)
            i = 0
            while True:
                x = self.load(st, IntTy(8), Ptr(p.obj, self.addoff(p.off, i, 1)), work)
                if not isinstance(x, int):
                    raise PathEnd("unsupported", "strlen on symbolic bytes")
                if x == 0:
                    return i
                i += 1
        if name == "abort" or name == "exit" or name == "_exit":
            raise PathEnd("panic", "abort()")
        if "core_detect" in name and "detect_and_initialize" in name:
            return 1 << 63      # cache word: initialised, no optional CPU feature present
        if fn is not None:
            return NotImplemented
        raise PathEnd("unsupported", "external call %s" % name)

    def intrinsic(self, st, fr, name, args, A, rt, work):
        mod = self.mod
        if name.startswith(("llvm.lifetime", "llvm.experimental.noalias", "llvm.prefetch", "llvm.dbg", "llvm.donothing",
                            "llvm.x86.sse2.pause", "llvm.invariant", "llvm.sideeffect")):
            return None
        if name == "llvm.assume":
            c = A(0)
            if isinstance(c, int):
                if not c & 1:
                    raise PathEnd("error", "llvm.assume(false) reached (undefined behaviour)")
                return None
            if c is UNDEF:
                return None
            nc = z3.Not(tobool(c))
            m = self.feasible(st, nc)
            if m is not None:
                st.model = m
                self.sl.add_constraint(st, z3.simplify(nc))
                raise PathEnd("error", "llvm.assume can be violated (undefined behaviour)")
            return None
        if name.startswith("llvm.memcpy") or name.startswith("llvm.memmove"):
            d, s, n = A(0), A(1), A(2)
            n = self.concretize(st, work, n, "memcpy length")
            if n == 0:
                return None
            so, s = self.check_access(st, s, n, False)
            do, d = self.check_access(st, d, n, True)
            soff = s.off if isinstance(s.off, int) else self.concretize(st, work, s.off, "memcpy source offset")
            doff = d.off if isinstance(d.off, int) else self.concretize(st, work, d.off, "memcpy destination offset")
            cells = so.data[soff:soff + n]
            do = st.wobj(d.obj)
            if isinstance(do.data, bytes):
                do.data = list(do.data)
            do.data[doff:doff + n] = cells
            if so.sym:
                do.sym = True
            return None
        if name.startswith("llvm.memset"):
            d, v, n = A(0), A(1), A(2)
            n = self.concretize(st, work, n, "memset length")
            if n == 0:
                return None
            do, d = self.check_access(st, d, n, True)
            doff = d.off if isinstance(d.off, int) else self.concretize(st, work, d.off, "memset offset")
            do = st.wobj(d.obj)
            if isinstance(do.data, bytes):
                do.data = list(do.data)
            if v is UNDEF:
                v = None
            elif not isinstance(v, int):
                do.sym = True
            do.data[doff:doff + n] = [v] * n
            return None
        base = name.split(".")
        op = base[1]
        if op in ("umin", "umax", "smin", "smax"):
            w = int(base[2][1:])
            a, b = A(0), A(1)
            pred = {"umin": "ult", "umax": "ugt", "smin": "slt", "smax": "sgt"}[op]
            c = self.icmp(st, pred, IntTy(w), a, b)
            if isinstance(c, int):
                return a if c else b
            if c is UNDEF:
                return UNDEF
            return simp(z3.If(tobool(c), bv(a, w), bv(b, w)))
        if op in ("uadd", "usub", "umul", "sadd", "ssub", "smul") and base[2] == "with":
            w = int(base[4][1:])
            a, b = A(0), A(1)
            bop = op[1:]
            if a is UNDEF or b is UNDEF:
                return [UNDEF, UNDEF]
            if isinstance(a, int) and isinstance(b, int):
                if op[0] == "u":
                    full = {"add": a + b, "sub": a - b, "mul": a * b}[bop]
                    return [full & mask(w), int(full < 0 or full > mask(w))]
                sa, sb = to_signed(a, w), to_signed(b, w)
                full = {"add": sa + sb, "sub": sa - sb, "mul": sa * sb}[bop]
                return [full & mask(w), int(not (-(1 << (w - 1)) <= full < (1 << (w - 1))))]
            X = bv(a, w)
            Y = bv(b, w)
            if op[0] == "u":
                XX = z3.ZeroExt(w, X)
                YY = z3.ZeroExt(w, Y)
            else:
                XX = z3.SignExt(w, X)
                YY = z3.SignExt(w, Y)
            full = {"add": XX + YY, "sub": XX - YY, "mul": XX * YY}[bop]
            res = z3.Extract(w - 1, 0, full)
            if op[0] == "u":
                ov = z3.Extract(2 * w - 1, w, full) != 0
            else:
                ov = z3.SignExt(w, res) != full
            return [simp(res), simp(ov)]
        if op == "bswap":
            w = int(base[2][1:])
            a = A(0)
            if isinstance(a, int):
                return int.from_bytes(a.to_bytes(w // 8, "little"), "big")
            if a is UNDEF:
                return UNDEF
            parts = [z3.Extract(8 * i + 7, 8 * i, a) for i in range(w // 8)]
            return simp(z3.Concat(*parts))
        if op in ("ctlz", "cttz", "ctpop"):
            w = int(base[2][1:])
            a = A(0)
            if isinstance(a, int):
                if op == "ctpop":
                    return bin(a).count("1")
                if a == 0:
                    return w
                if op == "ctlz":
                    return w - a.bit_length()
                return (a & -a).bit_length() - 1
            if a is UNDEF:
                return UNDEF
            if op == "ctpop":
                r = bvv(0, w)
                for i in range(w):
                    r = r + z3.ZeroExt(w - 1, z3.Extract(i, i, a))
                return simp(r)
            r = bvv(w, w)
            rng = range(w) if op == "ctlz" else range(w - 1, -1, -1)
            for i in rng:
                # ctlz: highest set bit wins -> iterate low..high so the last override is the highest
                cnt = (w - 1 - i) if op == "ctlz" else i
                r = z3.If(z3.Extract(i, i, a) == bvv(1, 1), bvv(cnt, w), r)
            return simp(r)
        if op in ("ucmp", "scmp"):
            wr = int(base[2][1:])
            w = int(base[3][1:])
            a, b = A(0), A(1)
            lt = self.icmp(st, "ult" if op == "ucmp" else "slt", IntTy(w), a, b)
            gt = self.icmp(st, "ugt" if op == "ucmp" else "sgt", IntTy(w), a, b)
            if isinstance(lt, int) and isinstance(gt, int):
                return mask(wr) if lt else (1 if gt else 0)
            if lt is UNDEF or gt is UNDEF:
                return UNDEF
            return simp(z3.If(tobool(lt), bvv(mask(wr), wr), z3.If(tobool(gt), bvv(1, wr), bvv(0, wr))))
        if op == "expect":
            return A(0)
        if op == "is" and base[2] == "constant":
            return 0
        if op in ("trap", "ubsantrap", "debugtrap"):
            raise PathEnd("panic", "llvm.trap")
        if op in ("fshl", "fshr"):
            w = int(base[2][1:])
            a, b, c = A(0), A(1), A(2)
            if isinstance(a, int) and isinstance(b, int) and isinstance(c, int):
                c %= w
                full = (a << w) | b
                if op == "fshl":
                    return (full >> (w - c)) & mask(w) if c else a
                return (full >> c) & mask(w)
            if a is UNDEF or b is UNDEF or c is UNDEF:
                return UNDEF
            full = z3.Concat(bv(a, w), bv(b, w))
            sh = z3.ZeroExt(w, z3.URem(bv(c, w), bvv(w, w)))
            if op == "fshl":
                return simp(z3.Extract(2 * w - 1, w, full << sh))
            return simp(z3.Extract(w - 1, 0, z3.LShR(full, sh)))
        if op in ("usub", "uadd") and base[2] == "sat":
            w = int(base[3][1:])
            a, b = A(0), A(1)
            if isinstance(a, int) and isinstance(b, int):
                return max(a - b, 0) if op == "usub" else min(a + b, mask(w))
            if a is UNDEF or b is UNDEF:
                return UNDEF
            X, Y = bv(a, w), bv(b, w)
            if op == "usub":
                return simp(z3.If(z3.UGE(X, Y), X - Y, bvv(0, w)))
            return simp(z3.If(z3.UGE(X + Y, X), X + Y, bvv(mask(w), w)))
        if op == "abs":
            w = int(base[2][1:])
            a = A(0)
            if isinstance(a, int):
                return abs(to_signed(a, w)) & mask(w)
            if a is UNDEF:
                return UNDEF
            return simp(z3.If(a < 0, -a, a))
        if op == "bitreverse":
            w = int(base[2][1:])
            a = A(0)
            if isinstance(a, int):
                return int(bin(a)[2:].zfill(w)[::-1], 2)
            parts = [z3.Extract(i, i, a) for i in range(w)]
            return simp(z3.Concat(*parts))
        if op == "ptrmask":
            p, m = A(0), A(1)
            a = self.ptr_addr(st, p)
            r = self.binop("and", 64, a, m)
            return self.int_to_ptr(st, r) if isinstance(r, int) else IntPtr(r)
        if op == "threadlocal":
            return A(0)
        if op == "load" and base[2] == "relative":
            p, off = A(0), A(1)
            off = self.concretize(st, work, off, "load.relative offset")
            if off >> 63:
                off -= 1 << 64
            v = self.load(st, IntTy(32), Ptr(p.obj, self.addoff(p.off, off, 1)), work)
            if not isinstance(v, int):
                raise PathEnd("unsupported", "symbolic relative pointer")
            a = (self.ptr_addr(st, p) + to_signed(v, 32)) & mask(64)
            fn = self.fn_by_addr.get(a)
            if fn is not None:
                return FnPtr(fn)
            return self.int_to_ptr(st, a)
        raise PathEnd("unsupported", "intrinsic " + name)

    def se_call(self, st, fr, name, args, A, work):
        sl = self.sl
        if name.startswith("se_sym_u"):
            w = int(name[len("se_sym_u"):])
            tag = A(0)
            if self.concrete_syms is not None:
                k = len(st.draws)
                v = self.concrete_syms[k] & mask(w) if k < len(self.concrete_syms) else 0
                st.draws.append((tag, w, v))
                return v
            s = z3.BitVec("s%d_t%d_w%d" % (st.nsym, tag, w), w)
            st.nsym += 1
            nm = str(s)
            st.syms.append((nm, s))
            sl.symobj[nm] = s
            m = dict(st.model)
            m[nm] = 0
            st.model = m
            st.draws.append((tag, w, s))
            return s
        if name == "se_param":
            k = A(0)
            return self.params.get(k, 0) & mask(64)
        if name == "se_assume":
            c = A(0)
            if isinstance(c, int):
                if not c & 1:
                    raise PathEnd("infeasible")
                return None
            if c is UNDEF:
                raise PathEnd("error", "assume on undef")
            c = z3.simplify(tobool(c))
            m = self.feasible(st, c)
            if m is None:
                raise PathEnd("infeasible")
            st.model = m
            self.constrain(st, c)
            return None
        if name == "se_assert":
            c = A(0)
            aid = self.concretize(st, work, A(1), "se_assert id")
            self.stats["asserts_checked"] += 1
            if c is UNDEF or isinstance(c, PU):
                raise PathEnd("error", "assertion %d on undef/uninitialised value" % aid, aid)
            if isinstance(c, int):
                if not c & 1:
                    raise PathEnd("fail", "assertion %d violated" % aid, aid)
                return None
            self.stats["asserts_sym"] += 1
            nc = z3.simplify(z3.Not(tobool(c)))
            m = self.feasible(st, nc)
            if m is not None:
                st.model = m
                sl.add_constraint(st, nc)
                raise PathEnd("fail", "assertion %d violated" % aid, aid)
            # holds on this path for every value: record it so later queries can use it
            return None
        if name == "se_reach":
            st.reached.add(self.concretize(st, work, A(0), "se_reach id"))
            return None
        if name == "se_out":
            st.outs.append(A(0))
            return None
        if name == "se_expect_panic":
            st.expect_panic = A(0)
            return None
        if name == "se_concretize":
            return self.concretize(st, work, A(0), "se_concretize")
        if name == "se_uninit":
            p, n = A(0), A(1)
            n = self.concretize(st, work, n, "se_uninit length")
            if n == 0:
                return None
            o, p = self.check_access(st, p, n, True)
            o = st.wobj(p.obj)
            if isinstance(o.data, bytes):
                o.data = list(o.data)
            o.data[p.off:p.off + n] = [None] * n
            return None
        if name == "se_is_init":
            p, n = A(0), A(1)
            if n == 0:
                return 1
            o, p = self.check_access(st, p, n, False)
            for c in o.data[p.off:p.off + n]:
                if c is None:
                    return 0
            return 1
        if name == "se_addr":
            return self.ptr_addr(st, A(0))
        raise PathEnd("unsupported", "se call " + name)
