"""Solver layer of llsym: independence slicing keys, query cache, two DFS-aligned
incremental z3 solvers (light: table-free constraints; heavy: everything + ground facts
for constant tables read at symbolic indexes), model evaluation.

Every answer that is used as a verdict comes from z3's check(); 'unknown' raises
Inconclusive.  Nothing here samples or enumerates input values."""
import time
import z3


class Inconclusive(Exception):
    pass


EMPTY = frozenset()


class Aligned:
    """Incremental solver whose assertion stack mirrors a prefix-ordered list of constraints."""

    def __init__(self, mk):
        self.mk = mk
        self.s = mk()
        self.stack = []          # ast ids, one push level per entry
        self.base_facts = []     # asserted below every push level

    def reset(self):
        self.s = self.mk()
        for f in self.base_facts:
            self.s.add(f)
        self.stack = []

    def add_base(self, facts):
        # facts must live below all push levels
        if self.stack:
            self.s.pop(len(self.stack))
            self.stack = []
        for f in facts:
            self.s.add(f)
        self.base_facts.extend(facts)

    def sync(self, ids, exprs):
        st = self.stack
        n = 0
        m = min(len(st), len(ids))
        while n < m and st[n] == ids[n]:
            n += 1
        if n < len(st):
            self.s.pop(len(st) - n)
            del st[n:]
        s = self.s
        for k in range(n, len(ids)):
            s.push()
            s.add(exprs[k])
            st.append(ids[k])


class SolverLayer:
    def __init__(self, timeout_ms=120000):
        self.timeout_ms = timeout_ms

        def mk_light():
            s = z3.SolverFor("QF_BV")
            s.set("timeout", timeout_ms)
            return s

        def mk_heavy():
            s = z3.Solver()
            s.set("timeout", timeout_ms)
            return s
        self.light = Aligned(mk_light)
        self.mk_heavy = mk_heavy
        self.heavies = {}      # frozenset of table names -> Aligned solver holding exactly those tables' facts
        self.table_facts = {}  # table name -> list of ground facts asserted so far
        self.table_info = {}
        self.einfo = {}        # ast id -> (frozenset sym names, uses_table, expr)   (expr kept alive)
        self.qcache = {}       # (group keys, cond id) -> (sat, partial model dict)
        self.intern = {}       # (cid, nodes) -> node id
        self.node_tab = [EMPTY]
        self.node_syms = [frozenset()]
        self.node_parents = [()]
        self.symobj = {}       # name -> z3 const
        self.valcache = {}     # (name, value) -> z3 numeral
        self.tables_model = None
        self.stats = dict(queries=0, light=0, heavy=0, cache_hits=0, model_hits=0, qtime=0.0, heavy_t=0.0,
                          light_t=0.0, sat=0, unsat=0, subsumed=0)
        self.dump = None       # optional list collecting (sliced smt2) for cross-checking

    # ---------------------------------------------------------------- expression info
    def info(self, e):
        i = e.get_id()
        r = self.einfo.get(i)
        if r is not None:
            return r
        # iterative post-order with caching on every level
        einfo = self.einfo
        stack = [(e, False)]
        while stack:
            x, done = stack.pop()
            xi = x.get_id()
            if xi in einfo:
                continue
            if not done:
                n = x.num_args() if z3.is_app(x) else 0
                if n == 0:
                    d = x.decl() if z3.is_app(x) else None
                    if d is not None and d.kind() == z3.Z3_OP_UNINTERPRETED:
                        einfo[xi] = (frozenset((d.name(),)), EMPTY, x)
                    else:
                        einfo[xi] = (EMPTY, EMPTY, x)
                    continue
                stack.append((x, True))
                for c in x.children():
                    if c.get_id() not in einfo:
                        stack.append((c, False))
            else:
                syms = EMPTY
                d = x.decl()
                tab = frozenset((d.name(),)) if d.kind() == z3.Z3_OP_UNINTERPRETED else EMPTY
                for c in x.children():
                    ci = einfo[c.get_id()]
                    if ci[0]:
                        syms = syms | ci[0] if syms else ci[0]
                    if ci[1]:
                        tab = tab | ci[1] if tab else ci[1]
                einfo[xi] = (syms, tab, x)
        return einfo[i]

    # ---------------------------------------------------------------- groups (independence partition)
    def add_constraint(self, st, c):
        """record constraint c in state st: pc lists + partition of symbols into dependent groups"""
        syms, tab, _ = self.info(c)
        cid = c.get_id()
        st.pc.append(c)
        st.pc_ids.append(cid)
        if not tab:
            st.lpc.append(c)
            st.lpc_ids.append(cid)
        grp = st.grp
        nodes = set()
        for s in syms:
            g = grp.get(s)
            if g:
                nodes.add(g)
        key = (cid, tuple(sorted(nodes)))
        nid = self.intern.get(key)
        if nid is None:
            nid = len(self.node_tab)
            self.intern[key] = nid
            t = tab
            sy = set(syms)
            for g in nodes:
                if self.node_tab[g]:
                    t = t | self.node_tab[g]
                sy |= self.node_syms[g]
            self.node_tab.append(t)
            self.node_syms.append(frozenset(sy))
            self.node_parents.append(key[1])
        for s in self.node_syms[nid]:
            grp[s] = nid

    def slice_key(self, st, cond):
        syms, tab, _ = self.info(cond)
        grp = st.grp
        nodes = set()
        for s in syms:
            g = grp.get(s)
            if g:
                nodes.add(g)
        for g in nodes:
            if self.node_tab[g]:
                tab = tab | self.node_tab[g]
        return (tuple(sorted(nodes)), cond.get_id()), tab, nodes, syms

    # ---------------------------------------------------------------- model evaluation
    def numeral(self, name, v):
        k = (name, v)
        r = self.valcache.get(k)
        if r is None:
            s = self.symobj[name]
            r = z3.BitVecVal(v, s.size())
            self.valcache[k] = r
        return r

    def meval(self, model, c):
        """value of Bool expr c under model (dict name->int): True / False / None (undetermined)"""
        syms = self.info(c)[0]
        subs = []
        so = self.symobj
        for name in syms:
            v = model.get(name)
            if v is None:
                return None
            subs.append((so[name], self.numeral(name, v)))
        r = z3.substitute(c, *subs) if subs else c
        r = z3.simplify(r)
        if z3.is_true(r):
            return True
        if z3.is_false(r):
            return False
        if self.tables_model is not None:
            r = self.tables_model.eval(r, model_completion=False)
            if z3.is_true(r):
                return True
            if z3.is_false(r):
                return False
        return None

    def eval_bv(self, model, e):
        """concrete int value of bit-vector expr e under model, or None"""
        if isinstance(e, int):
            return e
        syms = self.info(e)[0]
        subs = []
        for name in syms:
            v = model.get(name)
            if v is None:
                return None
            subs.append((self.symobj[name], self.numeral(name, v)))
        r = z3.simplify(z3.substitute(e, *subs) if subs else e)
        if z3.is_bv_value(r):
            return r.as_long()
        if z3.is_true(r):
            return 1
        if z3.is_false(r):
            return 0
        if self.tables_model is not None:
            r = self.tables_model.eval(r, model_completion=False)
            if z3.is_bv_value(r):
                return r.as_long()
        return None

    # ---------------------------------------------------------------- tables
    def add_table(self, f, entries, width, idx_width=64):
        """register constant table f (BV idx_width -> BV width).  Ground facts are asserted lazily, only for
        the index ranges that reads on explored paths can reach (ensure_table_range): a query's cost grows with
        the number of facts present, so a sharded job only ever sees its own part of a large table."""
        name = f.name()
        self.table_info[name] = dict(f=f, vals=[v for k, v in entries], width=width, iw=idx_width, have=set())
        self.table_facts[name] = []
        if self.tables_model is None:
            self.tables_model = z3.Model()
        m = self.tables_model
        ctx = m.ctx.ref()
        fi = z3.FuncInterp(z3.Z3_add_func_interp(ctx, m.model, f.ast, z3.BitVecVal(0, width).as_ast()), m.ctx)
        self._keep = getattr(self, "_keep", [])
        self._keep.append(fi)
        for k, v in entries:
            av = z3.AstVector()
            av.push(z3.BitVecVal(k, idx_width))
            z3.Z3_func_interp_add_entry(ctx, fi.f, av.vector, z3.BitVecVal(v, width).as_ast())

    BLOCK = 64

    def ensure_table_range(self, name, lo, hi):
        """make sure the ground facts for entries lo..=hi of table `name` are present in every heavy solver that
        holds this table (blocks of 64 entries)"""
        ti = self.table_info[name]
        B = self.BLOCK
        new = []
        f = ti["f"]
        vals = ti["vals"]
        for b in range(lo // B, hi // B + 1):
            if b in ti["have"]:
                continue
            ti["have"].add(b)
            for k in range(b * B, min((b + 1) * B, len(vals))):
                new.append(f(z3.BitVecVal(k, ti["iw"])) == z3.BitVecVal(vals[k], ti["width"]))
        if new:
            self.table_facts[name].extend(new)
            self.stats["facts_asserted"] = self.stats.get("facts_asserted", 0) + len(new)
            for tabs, sv in self.heavies.items():
                if name in tabs:
                    sv.add_base(new)

    def cvc5_fallback(self, constraints, cond, names):
        """decide  /\ constraints /\ cond  with `cvc5 --solve-bv-as-int=sum`; returns (True, {name: value}) / (False, None),
        or None if cvc5 is unavailable or does not give a clean answer (any '(error' line counts as inconclusive)"""
        import subprocess, tempfile, os, re, shutil
        exe = shutil.which("cvc5")
        if exe is None:
            return None
        zs = z3.Solver()
        for c in constraints:
            zs.add(c)
        if cond is not None:
            zs.add(cond)
        text = zs.to_smt2()
        if "(check-sat)" not in text:
            return None
        names = [n for n in names if n in self.symobj and ("(declare-fun %s " % n) in text]
        gv = "(get-value (%s))\n" % " ".join(names) if names else ""
        text = "(set-option :produce-models true)\n(set-logic QF_BV)\n" + text.replace("(check-sat)", "(check-sat)\n" + gv)
        fd, path = tempfile.mkstemp(suffix=".smt2", prefix="llsym-")
        try:
            with os.fdopen(fd, "w") as f:
                f.write(text)
            p = subprocess.run([exe, "--lang", "smt2", "--solve-bv-as-int=sum", "--tlimit=%d" % max(self.timeout_ms * 3, 60000), path],
                               stdout=subprocess.PIPE, stderr=subprocess.STDOUT, text=True, timeout=max(self.timeout_ms * 3, 60000) / 1000 + 30)
            out = p.stdout
        except Exception:
            return None
        finally:
            try:
                os.unlink(path)
            except OSError:
                pass
        lines = out.strip().splitlines()
        if not lines:
            return None
        verdict = lines[0].strip()
        if verdict == "unsat":
            # the only complaint allowed after an unsat verdict is the one about the unconditional (get-value ...)
            rest = [l for l in lines[1:] if "(error" in l]
            if all("Cannot get value" in l for l in rest):
                return (False, None)
            return None
        if verdict != "sat" or "(error" in out:
            return None
        part = {}
        for m in re.finditer(r"\(\s*([A-Za-z0-9_]+)\s+(#b[01]+|#x[0-9a-fA-F]+|\(_ bv(\d+) \d+\))\s*\)", out):
            v = m.group(2)
            part[m.group(1)] = int(v[2:], 2) if v.startswith("#b") else int(v[2:], 16) if v.startswith("#x") else int(m.group(3))
        if any(n not in part for n in names):
            return None
        return (True, part)

    # ---------------------------------------------------------------- queries
    def check(self, st, cond):
        """Is pc(st) /\\ cond satisfiable?  Returns a model dict (name->int) for all symbols of st, or None.
        cond may be None (just the pc)."""
        stats = self.stats
        if cond is None:
            key, nodes, csyms = ((), -1), (), frozenset()
            # whole pc
            tab = EMPTY
            for c in st.pc:
                t = self.info(c)[1]
                if t:
                    tab = tab | t
        else:
            key, tab, nodes, csyms = self.slice_key(st, cond)
            hit = self.qcache.get(key)
            if hit is not None:
                stats["cache_hits"] += 1
                ok, part = hit
                if not ok:
                    return None
                m = dict(st.model) if st.model else {}
                m.update(part)
                return m
            # monotonicity: unsat under a subset of the constraints (an ancestor of the group) stays unsat
            if len(key[0]) == 1:
                cid = key[1]
                g = key[0][0]
                for _ in range(24):
                    ps = self.node_parents[g]
                    if len(ps) != 1:
                        break
                    g = ps[0]
                    h = self.qcache.get(((g,), cid))
                    if h is not None and not h[0]:
                        stats["cache_hits"] += 1
                        stats["subsumed"] = stats.get("subsumed", 0) + 1
                        self.qcache[key] = (False, None)
                        return None
        t0 = time.time()
        if tab:
            sv = self.heavies.get(tab)
            if sv is None:
                sv = self.heavies[tab] = Aligned(self.mk_heavy)
                for t in sorted(tab):
                    sv.add_base(self.table_facts[t])
            sv.sync(st.pc_ids, st.pc)
            stats["heavy"] += 1
        else:
            sv = self.light
            sv.sync(st.lpc_ids, st.lpc)
            stats["light"] += 1
        r = sv.s.check(cond) if cond is not None else sv.s.check()
        dt = time.time() - t0
        stats["queries"] += 1
        stats["qtime"] += dt
        stats["heavy_t" if tab else "light_t"] += dt
        if r == z3.unknown:
            why = sv.s.reason_unknown()
            fb = None
            if not tab:
                # second opinion for arithmetic-heavy, table-free queries (64-bit multiply/divide by constants stall
                # z3's bit-blaster): cvc5 with its integer encoding of bit-vectors
                keep = set(csyms)
                for g in nodes:
                    keep |= self.node_syms[g]
                if cond is None:
                    keep = set(n for n, _ in st.syms)
                fb = self.cvc5_fallback(st.lpc, cond, sorted(keep))
            if fb is None:
                raise Inconclusive("solver returned unknown: %s" % why)
            stats["cvc5_fallback"] = stats.get("cvc5_fallback", 0) + 1
            ok, part = fb
            if not ok:
                stats["unsat"] += 1
                if cond is not None:
                    self.qcache[key] = (False, None)
                return None
            stats["sat"] += 1
            if cond is not None:
                self.qcache[key] = (True, part)
            model = dict(st.model) if st.model else {}
            model.update(part)
            return model
        if self.dump is not None and cond is not None:
            self.dump.append((st.pc if tab else st.lpc, cond, r == z3.sat, bool(tab)))
        if r == z3.unsat:
            stats["unsat"] += 1
            if cond is not None:
                self.qcache[key] = (False, None)
            return None
        stats["sat"] += 1
        zm = sv.s.model()
        so = self.symobj
        if cond is None:
            model = dict(st.model) if st.model else {}
            for name, s in st.syms:
                model[name] = zm.eval(s, model_completion=True).as_long()
            return model
        # Only the symbols of the slice take their values from the solver; independent groups keep the
        # values of st.model, which already satisfy their constraints (the light solver never saw the
        # table-involving ones).
        keep = set(csyms)
        for g in nodes:
            keep |= self.node_syms[g]
        part = {}
        for n in keep:
            part[n] = zm.eval(so[n], model_completion=True).as_long()
        self.qcache[key] = (True, part)
        model = dict(st.model) if st.model else {}
        model.update(part)
        return model
