"""Run one llsym harness: python3-vt run.py <module.ll|module.pkl> <harness> [k=v ...]  -> JSON on stdout"""
import sys, os, json, time, pickle
sys.path.insert(0, os.path.dirname(os.path.abspath(__file__)))


def load_module(path):
    import llparse
    return llparse.parse_module(path)


def run_job(mod, harness, params, opts=None, engine=None):
    import engine as E
    opts = opts or {}
    eng = engine or E.Engine(mod, max_steps=opts.get("max_steps", 3_000_000),
                             solver_timeout_ms=opts.get("solver_timeout_ms", 120000))
    eng.reset_stats()
    if "small_index_fork" in opts:
        eng.small_index_fork = opts["small_index_fork"]
    if opts.get("concrete") is not None:
        eng.concrete_syms = list(opts["concrete"])
    else:
        eng.concrete_syms = None
    q0 = dict(eng.sl.stats)
    t0 = time.time()
    try:
        status = eng.run(harness, params, path_budget=opts.get("path_budget"), time_budget=opts.get("time_budget"))
    except E.Inconclusive as e:
        status = "inconclusive: %s" % e
    s = eng.stats
    q = {k: eng.sl.stats[k] - q0.get(k, 0) for k in eng.sl.stats}
    res = dict(harness=harness, params={str(k): v for k, v in params.items()}, status=status,
               stats={k: v for k, v in s.items()}, solver=q,
               results=eng.results[:50], n_results=len(eng.results),
               reached=sorted(str(r) for r in eng.reached), samples=eng.samples,
               funcs=sorted(eng.short(f) for f in eng.funcs_seen), stubs=sorted(eng.stubs_used), wall=time.time() - t0)
    return res


def main():
    path = sys.argv[1]
    harness = sys.argv[2]
    params = {}
    opts = {}
    for a in sys.argv[3:]:
        k, v = a.split("=")
        if k == "concrete":
            opts["concrete"] = [int(x, 0) for x in v.split(",") if x]
        elif k == "small_index_fork":
            opts[k] = int(v)
        elif k in ("path_budget", "max_steps"):
            opts[k] = int(v)
        elif k == "time_budget":
            opts[k] = float(v)
        else:
            params[int(k)] = int(v, 0)
    t0 = time.time()
    mod = load_module(path)
    t1 = time.time()
    res = run_job(mod, harness, params, opts)
    res["parse_s"] = t1 - t0
    fn = res.pop("funcs")
    res["n_funcs"] = len(fn)
    if os.environ.get("FUNCS"):
        res["funcs"] = fn
    json.dump(res, sys.stdout, indent=1, default=str)
    print()


if __name__ == "__main__":
    main()
