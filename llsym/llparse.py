"""Minimal LLVM-IR (text, opaque pointers) parser for rustc output. Spike."""
import re, sys

class Ty:
    __slots__ = ("k", "n", "el", "els", "packed", "name", "_size", "_align", "_offs")
    def __init__(self, k, n=0, el=None, els=None, packed=False, name=None):
        self.k = k; self.n = n; self.el = el; self.els = els; self.packed = packed; self.name = name
        self._size = None; self._align = None; self._offs = None
    def __repr__(self):
        if self.k == "int": return "i%d" % self.n
        if self.k == "arr": return "[%d x %r]" % (self.n, self.el)
        if self.k == "vec": return "<%d x %r>" % (self.n, self.el)
        if self.k == "struct": return ("<{%s}>" if self.packed else "{%s}") % ", ".join(map(repr, self.els))
        return self.k

VOID = Ty("void"); PTR = Ty("ptr"); LABEL = Ty("label"); META = Ty("metadata")
_ints = {}
def IntTy(n):
    t = _ints.get(n)
    if t is None:
        t = _ints[n] = Ty("int", n)
    return t

class Module:
    def __init__(self):
        self.named = {}      # name -> Ty
        self.globals = {}    # name -> (ty, init, is_const, align)
        self.funcs = {}      # name -> Func
        self.decls = set()
        self.pretty = {}     # function name -> demangled path (from rustc's comment lines)

    def store_size(self, t):
        t = self.resolve(t)
        if t.k == "int":
            return max((t.n + 7) // 8, 1)
        return self.size(t)

    def resolve(self, t):
        while t.k == "named":
            t = self.named[t.name]
        return t

    def align(self, t):
        t = self.resolve(t)
        if t._align is not None: return t._align
        if t.k == "int":
            b = (t.n + 7) // 8
            a = 1
            while a < b: a *= 2
            a = min(a, 16)
        elif t.k == "ptr": a = 8
        elif t.k == "arr": a = self.align(t.el)
        elif t.k == "vec":
            s = self.size(t); a = 1
            while a < s: a *= 2
        elif t.k == "struct":
            a = 1 if t.packed else max([self.align(e) for e in t.els] + [1])
        elif t.k in ("float",): a = 4
        elif t.k in ("double",): a = 8
        else: raise Exception("align of %r" % t)
        t._align = a
        return a

    def size(self, t):
        t = self.resolve(t)
        if t._size is not None: return t._size
        if t.k == "int": s = (t.n + 7) // 8; s = max(s, 1); a = self.align(t); s = (s + a - 1) // a * a
        elif t.k == "ptr": s = 8
        elif t.k == "arr": s = t.n * self.size(t.el)
        elif t.k == "vec": s = (t.n * t.el.n + 7) // 8
        elif t.k == "struct":
            self.offsets(t); s = t._size
        elif t.k == "float": s = 4
        elif t.k == "double": s = 8
        else: raise Exception("size of %r" % t)
        t._size = s
        return s

    def offsets(self, t):
        t = self.resolve(t)
        if t._offs is not None: return t._offs
        off = 0; offs = []
        for e in t.els:
            if not t.packed:
                a = self.align(e); off = (off + a - 1) // a * a
            offs.append(off); off += self.size(e)
        if not t.packed:
            a = self.align(t); off = (off + a - 1) // a * a
        t._offs = offs; t._size = off
        return offs

class Func:
    def __init__(self, name, ret, params):
        self.name = name; self.ret = ret; self.params = params  # [(ty, name)]
        self.blocks = {}   # label -> list of instrs
        self.order = []

# ---------------------------------------------------------------- tokenizer
TOK = re.compile(r'''
    \s+ |
    (?P<str>c"(?:[^"\\]|\\[0-9A-Fa-f]{2}|\\\\)*") |
    (?P<qid>[%@]"(?:[^"\\]|\\.)*") |
    (?P<pstr>"(?:[^"\\]|\\.)*") |
    (?P<id>[%@][-a-zA-Z$._0-9]+) |
    (?P<meta>![-a-zA-Z$._0-9]*) |
    (?P<attr>\#[0-9]+) |
    (?P<num>-?[0-9]+(?:\.[0-9]+(?:e[+-]?[0-9]+)?)?) |
    (?P<hex>0x[0-9A-Fa-f]+) |
    (?P<word>[a-zA-Z_][a-zA-Z_0-9.]*) |
    (?P<dots>\.\.\.) |
    (?P<p>[()\[\]{}<>,=*:|])
''', re.X)

def tokenize(s):
    out = []; pos = 0; n = len(s)
    while pos < n:
        m = TOK.match(s, pos)
        if not m:
            raise Exception("tokenize error at %r" % s[pos:pos+40])
        pos = m.end()
        k = m.lastgroup
        if k is None: continue
        out.append((k, m.group(k)))
    return out

def unescape_c(s):
    # s like c"...."
    body = s[2:-1]; out = bytearray(); i = 0
    while i < len(body):
        ch = body[i]
        if ch == "\\":
            if body[i+1] == "\\": out.append(0x5c); i += 2
            else: out.append(int(body[i+1:i+3], 16)); i += 3
        else:
            out.append(ord(ch)); i += 1
    return bytes(out)

PARAM_ATTRS = {"noundef","nonnull","noalias","readonly","readnone","writeonly","zeroext","signext","inreg",
    "nocapture","returned","nofree","nest","immarg","swiftself","swifterror","inalloca","dead_on_unwind","allocalign","allocptr","writable","dead_on_return"}
PARAM_ATTRS_ARG = {"align","dereferenceable","dereferenceable_or_null","captures","range","sret","byval","byref","preallocated","elementtype","nofpclass","initializes"}

class P:
    def __init__(self, mod, toks):
        self.m = mod; self.t = toks; self.i = 0
    def peek(self, o=0):
        j = self.i + o
        return self.t[j] if j < len(self.t) else (None, None)
    def next(self):
        x = self.t[self.i]; self.i += 1; return x
    def accept(self, v):
        if self.i < len(self.t) and self.t[self.i][1] == v:
            self.i += 1; return True
        return False
    def expect(self, v):
        x = self.next()
        if x[1] != v: raise Exception("expected %r got %r near %r" % (v, x, self.t[max(0,self.i-6):self.i+4]))
    def skip_balanced(self):
        # current token must be '(' ; skip to matching
        depth = 0
        while True:
            k, v = self.next()
            if v == "(": depth += 1
            elif v == ")":
                depth -= 1
                if depth == 0: return

    def type(self):
        k, v = self.next()
        if k == "word":
            if v[0] == "i" and v[1:].isdigit(): t = IntTy(int(v[1:]))
            elif v == "ptr":
                t = PTR
                if self.peek()[1] == "addrspace": self.next(); self.skip_balanced()
            elif v == "void": t = VOID
            elif v == "label": t = LABEL
            elif v == "metadata": t = META
            elif v in ("float", "double", "half", "x86_fp80", "fp128", "bfloat"): t = Ty("double" if v != "float" else "float")
            else: raise Exception("type? %r" % v)
        elif v == "[":
            n = int(self.next()[1]); self.expect("x"); el = self.type(); self.expect("]"); t = Ty("arr", n, el)
        elif v == "<":
            if self.peek()[1] == "{":
                self.next(); els = []
                if not self.accept("}"):
                    while True:
                        els.append(self.type())
                        if self.accept("}"): break
                        self.expect(",")
                self.expect(">"); t = Ty("struct", els=els, packed=True)
            else:
                n = int(self.next()[1]); self.expect("x"); el = self.type(); self.expect(">"); t = Ty("vec", n, el)
        elif v == "{":
            els = []
            if not self.accept("}"):
                while True:
                    els.append(self.type())
                    if self.accept("}"): break
                    self.expect(",")
            t = Ty("struct", els=els)
        elif k in ("id", "qid") and v[0] == "%":
            t = Ty("named", name=v)
        else:
            raise Exception("type? %r %r" % (k, v))
        # function type suffix e.g. "void (ptr)" -- only in calls with varargs; handle minimal
        if self.peek()[1] == "(" and t.k != "label":
            # function type: skip
            self.skip_balanced()
            t = Ty("fnty")
        return t

    def const(self, ty):
        """parse a constant/value of type ty -> value expr tuple"""
        k, v = self.next()
        if k == "num": return ("int", int(v)) if "." not in v else ("float", v)
        if k == "hex": return ("float", v)
        if k == "word":
            if v == "true": return ("int", 1)
            if v == "false": return ("int", 0)
            if v == "null": return ("null",)
            if v in ("undef", "poison"): return ("undef",)
            if v == "zeroinitializer": return ("zero",)
            if v == "none": return ("none",)
            if v in ("getelementptr", "ptrtoint", "inttoptr", "bitcast", "sub", "add", "trunc", "addrspacecast", "icmp", "xor", "shl"):
                return self.constexpr(v)
            if v == "splat":
                self.expect("("); t = self.type(); c = self.const(t); self.expect(")")
                return ("splat", c)
            raise Exception("const? %r" % v)
        if k == "str": return ("bytes", unescape_c(v))
        if k in ("id", "qid"):
            if v[0] == "@": return ("global", v)
            return ("reg", v)
        if v == "[":
            els = []
            if not self.accept("]"):
                while True:
                    t = self.type(); els.append((t, self.const(t)))
                    if self.accept("]"): break
                    self.expect(",")
            return ("agg", els)
        if v == "{" or v == "<":
            packed = False
            if v == "<":
                if self.peek()[1] == "{": self.next(); packed = True
                else:
                    els = []
                    while True:
                        t = self.type(); els.append((t, self.const(t)))
                        if self.accept(">"): break
                        self.expect(",")
                    return ("agg", els)
            els = []
            if not self.accept("}"):
                while True:
                    t = self.type(); els.append((t, self.const(t)))
                    if self.accept("}"): break
                    self.expect(",")
            if packed: self.expect(">")
            return ("agg", els)
        if k == "meta":
            # metadata operand e.g. !{} or !123
            if self.peek()[1] == "{":
                depth = 0
                while True:
                    kk, vv = self.next()
                    if vv == "{": depth += 1
                    elif vv == "}":
                        depth -= 1
                        if depth == 0: break
            return ("meta",)
        raise Exception("const? %r %r near %r" % (k, v, self.t[max(0,self.i-8):self.i+4]))

    def constexpr(self, op):
        if op == "getelementptr":
            flags = []
            while self.peek()[1] in ("inbounds", "nuw", "nusw", "inrange"):
                if self.next()[1] == "inrange": self.skip_balanced()
            self.expect("("); bt = self.type(); self.expect(",")
            pt = self.type(); base = self.const(pt); idx = []
            while self.accept(","):
                while self.peek()[1] == "inrange": self.next()
                it = self.type(); idx.append((it, self.const(it)))
            self.expect(")")
            return ("cgep", bt, base, idx)
        if op in ("ptrtoint", "inttoptr", "bitcast", "trunc", "addrspacecast"):
            self.expect("("); ft = self.type(); c = self.const(ft); self.expect("to"); tt = self.type(); self.expect(")")
            return ("ccast", op, ft, c, tt)
        if op in ("sub", "add", "xor", "shl"):
            while self.peek()[1] in ("nuw", "nsw"): self.next()
            self.expect("("); t1 = self.type(); a = self.const(t1); self.expect(","); t2 = self.type(); b = self.const(t2); self.expect(")")
            return ("cbin", op, t1, a, b)
        raise Exception("constexpr %r" % op)

    def skip_param_attrs(self):
        while True:
            k, v = self.peek()
            if k == "word" and v in PARAM_ATTRS: self.next()
            elif k == "word" and v in PARAM_ATTRS_ARG:
                self.next()
                if self.peek()[1] == "(": self.skip_balanced()
                elif self.peek()[0] == "num": self.next()
            else: return

    def typed_value(self):
        t = self.type(); self.skip_param_attrs(); return (t, self.const(t))

LINKAGE = {"private","internal","available_externally","linkonce","weak","common","appending","extern_weak","linkonce_odr","weak_odr","external",
    "default","hidden","protected","dllimport","dllexport","thread_local","unnamed_addr","local_unnamed_addr","dso_local","dso_preemptable","externally_initialized"}
FN_PRE = LINKAGE | {"fastcc","ccc","coldcc","tailcc","cc","noundef","zeroext","signext","nonnull","noalias","inreg"}
FASTMATH = {"nnan","ninf","nsz","arcp","contract","afn","reassoc","fast"}

def parse_module(path):
    mod = Module()
    lines = open(path).read().split("\n")
    i = 0; n = len(lines)
    while i < n:
        line = lines[i]
        if not line or line[0] == ";" or line.startswith("source_filename") or line.startswith("target ") or line.startswith("attributes ") or line[0] == "!":
            i += 1; continue
        if line[0] == "%" or line.startswith('%"'):
            p = P(mod, tokenize(line)); name = p.next()[1]; p.expect("="); p.expect("type")
            if p.peek()[1] == "opaque": mod.named[name] = Ty("struct", els=[])
            else: mod.named[name] = p.type()
            i += 1; continue
        if line[0] == "@":
            # strip trailing metadata / comdat quickly
            p = P(mod, tokenize(line)); name = p.next()[1]; p.expect("=")
            while p.peek()[1] in LINKAGE:
                p.next()
            if p.peek()[1] == "addrspace": p.next(); p.skip_balanced()
            kv = p.next()[1]
            if kv == "alias" or kv == "ifunc":
                i += 1; continue
            is_const = (kv == "constant")
            ty = p.type()
            init = None
            if p.peek()[0] is not None and p.peek()[1] != ",":
                init = p.const(ty)
            align = 1
            while p.accept(","):
                k, v = p.next()
                if v == "align": align = int(p.next()[1])
                else: break
            mod.globals[name] = (ty, init, is_const, align)
            i += 1; continue
        if line.startswith("declare"):
            m = re.search(r'(@"(?:[^"\\]|\\.)*"|@[-a-zA-Z$._0-9]+)\s*\(', line)
            mod.decls.add(m.group(1)); i += 1; continue
        if line.startswith("define"):
            p = P(mod, tokenize(line)); p.next()
            while True:
                k, v = p.peek()
                if v in FN_PRE:
                    p.next()
                    if v == "cc": p.next()
                elif v in PARAM_ATTRS_ARG:
                    p.next()
                    if p.peek()[1] == "(": p.skip_balanced()
                    elif p.peek()[0] == "num": p.next()
                else: break
            ret = p.type();
            # return attrs may come before type too; handled above partially
            name = p.next()[1]; p.expect("(")
            params = []
            if not p.accept(")"):
                while True:
                    if p.peek()[0] == "dots": p.next(); p.expect(")"); break
                    t = p.type(); p.skip_param_attrs()
                    k, v = p.peek()
                    pn = None
                    if k in ("id", "qid"): pn = p.next()[1]
                    params.append((t, pn))
                    if p.accept(")"): break
                    p.expect(",")
            f = Func(name, ret, params); mod.funcs[name] = f
            j = i - 1
            while j >= 0 and j >= i - 3:
                lj = lines[j]
                if lj.startswith("; ") and not lj.startswith("; Function Attrs"):
                    mod.pretty[name] = lj[2:].strip(); break
                j -= 1
            i += 1
            cur = None; anon = len([1 for _, pn in params if pn is None])
            # unnamed params get %0.. numbering
            k_un = 0
            newparams = []
            for t, pn in params:
                if pn is None: pn = "%%%d" % k_un; k_un += 1
                elif pn[1:].isdigit(): k_un = int(pn[1:]) + 1
                newparams.append((t, pn))
            f.params = newparams
            first = True
            while i < n and lines[i] != "}":
                l = lines[i]
                if not l or l.lstrip().startswith(";"):
                    i += 1; continue
                if l[0] != " ":
                    # label
                    m = re.match(r'^("(?:[^"\\]|\\.)*"|[-a-zA-Z$._0-9]+):', l)
                    lab = m.group(1)
                    cur = []; f.blocks["%" + lab] = cur; f.order.append("%" + lab); i += 1; first = False; continue
                if cur is None:
                    lab = "%%%d" % k_un; k_un += 1
                    cur = []; f.blocks[lab] = cur; f.order.append(lab)
                # instruction, possibly multi-line switch
                text = l
                ls = l.lstrip()
                if ls.startswith("switch "):
                    while "]" not in lines[i]:
                        i += 1; text += " " + lines[i]
                elif ls.startswith("invoke ") or " = invoke " in l:
                    i += 1; text += " " + lines[i].strip()
                cur.append(text)
                i += 1
            i += 1; continue
        i += 1
    mod.code = CodeCache(mod)
    return mod


class CodeCache:
    """parsed instructions per function (pure parsing, no solver objects): built lazily, or eagerly in the
    parent process before forking workers"""
    def __init__(self, mod):
        self.m = mod
        self.icache = {}
        self.fcode = {}

    def parse_instr(self, text):
        ins = self.icache.get(text)
        if ins is not None:
            return ins
        t = text
        j = t.find(", !")
        if j >= 0:
            t = t[:j]
        toks = tokenize(t.strip())
        p = P(self.m, toks)
        dst = None
        if p.peek(1)[1] == "=":
            dst = p.next()[1]
            p.next()
        op = p.next()[1]
        if op in ("tail", "musttail", "notail"):
            op = p.next()[1]
        ins = self._parse_op(p, op, dst)
        self.icache[text] = ins
        return ins

    def _parse_op(self, p, op, dst):
        if op in ("add", "sub", "mul", "udiv", "sdiv", "urem", "srem", "shl", "lshr", "ashr", "and", "or", "xor"):
            flags = []
            while p.peek()[1] in ("nuw", "nsw", "exact", "disjoint"):
                flags.append(p.next()[1])
            ty = p.type()
            a = p.const(ty)
            p.expect(",")
            b = p.const(ty)
            return ("bin", dst, op, ty, a, b, tuple(flags))
        if op == "icmp":
            if p.peek()[1] == "samesign":
                p.next()
            pred = p.next()[1]
            ty = p.type()
            a = p.const(ty)
            p.expect(",")
            b = p.const(ty)
            return ("icmp", dst, pred, ty, a, b)
        if op in ("zext", "sext", "trunc", "bitcast", "ptrtoint", "inttoptr", "addrspacecast"):
            while p.peek()[1] in ("nneg", "nuw", "nsw"):
                p.next()
            ft = p.type()
            v = p.const(ft)
            p.expect("to")
            tt = p.type()
            return ("cast", dst, op, ft, v, tt)
        if op == "load":
            while p.peek()[1] in ("atomic", "volatile"):
                p.next()
            ty = p.type()
            p.expect(",")
            pt = p.type()
            a = p.const(pt)
            return ("load", dst, ty, a)
        if op == "store":
            while p.peek()[1] in ("atomic", "volatile"):
                p.next()
            ty = p.type()
            v = p.const(ty)
            p.expect(",")
            pt = p.type()
            a = p.const(pt)
            return ("store", ty, v, a)
        if op == "getelementptr":
            while p.peek()[1] in ("inbounds", "nuw", "nusw"):
                p.next()
            bt = p.type()
            p.expect(",")
            pt = p.type()
            base = p.const(pt)
            idx = []
            while p.accept(","):
                it = p.type()
                idx.append((it, p.const(it)))
            return ("gep", dst, bt, base, idx)
        if op == "phi":
            ty = p.type()
            inc = {}
            while True:
                p.expect("[")
                v = p.const(ty)
                p.expect(",")
                lab = p.next()[1]
                p.expect("]")
                inc[lab] = v
                if not p.accept(","):
                    break
            return ("phi", dst, ty, inc)
        if op == "select":
            ct = p.type()
            c = p.const(ct)
            p.expect(",")
            ty = p.type()
            a = p.const(ty)
            p.expect(",")
            ty2 = p.type()
            b = p.const(ty2)
            return ("select", dst, ct, c, ty, a, b)
        if op == "br":
            if p.peek()[1] == "label":
                p.next()
                return ("jmp", p.next()[1])
            ct = p.type()
            c = p.const(ct)
            p.expect(",")
            p.expect("label")
            a = p.next()[1]
            p.expect(",")
            p.expect("label")
            b = p.next()[1]
            return ("br", c, a, b)
        if op == "switch":
            ty = p.type()
            v = p.const(ty)
            p.expect(",")
            p.expect("label")
            d = p.next()[1]
            p.expect("[")
            cases = []
            while not p.accept("]"):
                ct = p.type()
                cv = p.const(ct)
                p.expect(",")
                p.expect("label")
                cases.append((cv[1], p.next()[1]))
            return ("switch", ty, v, d, cases)
        if op == "ret":
            ty = p.type()
            if ty.k == "void":
                return ("ret", None, None)
            return ("ret", ty, p.const(ty))
        if op == "unreachable":
            return ("unreachable",)
        if op in ("call", "invoke"):
            while True:
                k, v = p.peek()
                if v in FN_PRE or v in FASTMATH:
                    p.next()
                    if v == "cc":
                        p.next()
                elif v in PARAM_ATTRS_ARG:
                    p.next()
                    if p.peek()[1] == "(":
                        p.skip_balanced()
                    elif p.peek()[0] == "num":
                        p.next()
                else:
                    break
            rt = p.type()
            callee = p.next()[1]
            asm = None
            if callee == "asm":
                while p.peek()[1] in ("sideeffect", "alignstack", "inteldialect", "unwind"):
                    p.next()
                asm = p.next()[1]
                p.expect(",")
                asm = (asm, p.next()[1])
                callee = "@llvm.inline.asm"
            p.expect("(")
            args = []
            if not p.accept(")"):
                while True:
                    at = p.type()
                    p.skip_param_attrs()
                    if at.k == "metadata":
                        p.const(at)
                        args.append((at, ("meta",)))
                    else:
                        args.append((at, p.const(at)))
                    if p.accept(")"):
                        break
                    p.expect(",")
            normal = None
            if op == "invoke":
                # ... to label %a unwind label %b
                while p.peek()[1] != "to":
                    p.next()
                p.next()
                p.expect("label")
                normal = p.next()[1]
            if asm is not None:
                return ("asm", dst, rt, asm[0], asm[1], args, normal)
            return ("call", dst, rt, callee, args, normal)
        if op == "alloca":
            ty = p.type()
            cnt = None
            align = 1
            while p.accept(","):
                if p.peek()[1] == "align":
                    p.next()
                    align = int(p.next()[1])
                else:
                    ct = p.type()
                    cnt = (ct, p.const(ct))
            return ("alloca", dst, ty, cnt, align)
        if op == "extractvalue":
            ty = p.type()
            v = p.const(ty)
            idx = []
            while p.accept(","):
                idx.append(int(p.next()[1]))
            return ("extractvalue", dst, ty, v, idx)
        if op == "insertvalue":
            ty = p.type()
            v = p.const(ty)
            p.expect(",")
            et = p.type()
            ev = p.const(et)
            idx = []
            while p.accept(","):
                idx.append(int(p.next()[1]))
            return ("insertvalue", dst, ty, v, et, ev, idx)
        if op == "freeze":
            ty = p.type()
            v = p.const(ty)
            return ("freeze", dst, ty, v)
        if op == "fence":
            return ("nop",)
        return ("unsupported", op)

    def code_of(self, fn):
        c = self.fcode.get(fn.name)
        if c is None:
            c = {}
            for lab, lines in fn.blocks.items():
                out = []
                for t in lines:
                    try:
                        out.append(self.parse_instr(t))
                    except Exception as ex:
                        out.append(("unsupported", "unparsed instruction (%s): %s" % (ex, t.strip()[:80])))
                c[lab] = out
            self.fcode[fn.name] = c
        return c


    def parse_all(self):
        for fn in self.m.funcs.values():
            self.code_of(fn)
