// C03: encoding conforms to the Encoding Standard for every scalar-value sequence.
use crate::*;
use super::se::*;
use super::encs::*;
use super::refdec::*;
use super::refenc::*;
use super::drv::{Run, same_log};
use super::edrv::*;

/// neighbour characters for state transitions: ASCII, Roman-only, kana, kanji, unmappable, forbidden control, euro
pub fn neighbour(id: usize) -> u32 {
    match id { 0 => 0x41, 1 => 0xA5, 2 => 0x203E, 3 => 0x3042, 4 => 0x4E00, 5 => 0x1F600, 6 => 0x1B, 7 => 0x20AC, 8 => 0xFF71, 9 => 0x2212, _ => 0x5C }
}

fn run_and_compare(e: usize, t: &Text, source: usize, repl: bool, kind: usize) {
    let mut enc_ = enc(e).new_encoder();
    check(enc_.encoding() == enc(output_index(e)), 7);
    let mut run = Run::new(56);
    if source == SRC_UTF8 {
        if repl { epush8_replace(&mut enc_, kind, t.s8(0, t.n8), true, &mut run); } else { epush8_noreplace(&mut enc_, kind, t.s8(0, t.n8), true, &mut run); }
    } else if repl { epush16_replace(&mut enc_, kind, &t.b16[..t.n16], true, &mut run); } else { epush16_noreplace(&mut enc_, kind, &t.b16[..t.n16], true, &mut run); }
    check(run.finished, 1);
    check(!run.output_full_seen, 3);
    check(!enc_.has_pending_state(), 4);
    let mut exp = Log::new();
    let ends = if source == SRC_UTF8 { &t.end8 } else { &t.end16 };
    let had = ref_elog(e, &t.cp[..t.nchars], &ends[..t.nchars + 1], repl, &mut exp);
    same_log(&run.log, &exp, 10);
    if repl { check(run.had_errors == had, 2); }
    if had { reach(20); } else { reach(21); }
}

// (a)/(b): text  [x] c [y]  with c = plane base + symbolic 16-bit value in a window.
// params: 0 encoding, 1 source form, 2 replacement, 3 plane base (0, 0x10000, 0x20000, ...), 4/5 window of the low
//         16 bits, 6 neighbour before (0 = none, k+1 = neighbour k), 7 neighbour after, 8 sink kind (0 slice, 1 Vec)
harness!(se_h_c03_char, c03_char, {
    let e = param(0);
    let source = param(1);
    let repl = param(2) != 0;
    let base = param(3) as u32;
    let s = sym_u16(0);
    assume(s as usize >= param(4) && s as usize <= param(5));
    let c = base + s as u32;
    assume(!(c >= 0xD800 && c <= 0xDFFF));
    assume(c <= 0x10FFFF);
    let mut t = Text::new();
    if param(6) != 0 { t.push(neighbour(param(6) - 1)); }
    t.push(c);
    if param(7) != 0 { t.push(neighbour(param(7) - 1)); }
    run_and_compare(e, &t, source, repl, param(8));
    reach(END);
});

// UTF-16 source with arbitrary code units: every surrogate arrangement (lone, reversed, paired); each unpaired
// surrogate counts as U+FFFD.   params: 0 encoding, 2 replacement, 4/5 window for unit 0, 6/7 window for unit 1, 9 = units (1..3)
harness!(se_h_c03_units, c03_units, {
    let e = param(0);
    let repl = param(2) != 0;
    let n = param(9);
    let mut u = [0u16; 4];
    let mut i = 0;
    while i < n { u[i] = sym_u16(i as u32); i += 1; }
    assume(u[0] as usize >= param(4) && u[0] as usize <= param(5));
    if n > 1 { assume(u[1] as usize >= param(6) && u[1] as usize <= param(7)); }
    // reference scalar sequence
    let mut cps = [0u32; 4]; let mut ends = [0usize; 5]; let mut nc = 0usize;
    let mut k = 0;
    while k < n {
        let x = u[k] as u32;
        if x >= 0xD800 && x <= 0xDBFF && k + 1 < n && (u[k + 1] as u32) >= 0xDC00 && (u[k + 1] as u32) <= 0xDFFF {
            cps[nc] = 0x10000 + ((x - 0xD800) << 10) + (u[k + 1] as u32 - 0xDC00); k += 2;
        } else if x >= 0xD800 && x <= 0xDFFF { cps[nc] = 0xFFFD; k += 1; }
        else { cps[nc] = x; k += 1; }
        nc += 1; ends[nc] = k;
    }
    let mut enc_ = enc(e).new_encoder();
    let mut run = Run::new(56);
    if repl { epush16_replace(&mut enc_, EK_SLICE, &u[..n], true, &mut run); } else { epush16_noreplace(&mut enc_, EK_SLICE, &u[..n], true, &mut run); }
    check(run.finished, 1);
    let mut exp = Log::new();
    let had = ref_elog(e, &cps[..nc], &ends[..nc + 1], repl, &mut exp);
    same_log(&run.log, &exp, 10);
    if repl { check(run.had_errors == had, 2); }
    reach(END);
});
