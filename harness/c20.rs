// C20: encoding metadata predicates tell the truth about actual conversion behaviour.
use crate::*;
use super::se::*;
use super::encs::*;
use super::refdec::*;
use super::drv::*;
use super::edrv::*;

// ∀-side and ∃-side in one harness per encoding: the universal statement of each predicate is asserted with its own
// assertion id; the driver knows for which encodings the predicate is documented false and there REQUIRES a
// counterexample (a solver witness, replayed natively), so a flag flipped either way is caught.
// params: 0 encoding, 1 which statement (0 ascii-compatible decode, 1 ascii-compatible encode, 2 single-byte decode,
//         3 single-byte encode, 4 can-encode-everything), 3 plane base, 4/5 window (for the encode statements)
harness!(se_h_c20_pred, c20_pred, {
    let e = param(0);
    let en = enc(e);
    match param(1) {
        0 => { // bytes 00-7F decode to U+0000-U+007F
            let b = sym_u8(0);
            assume(b < 0x80);
            let mut d = en.new_decoder_without_bom_handling();
            let mut run = Run::new(8);
            push_noreplace(&mut d, SK_U16, &[b], true, &mut run);
            let ok = run.log.n == 1 && run.log.ev[0].k == K_UNIT && run.log.ev[0].a == b as u32;
            if en.is_ascii_compatible() { reach(70); check(ok, 40); } else { reach(71); check(ok, 41); }      // 41: must be refutable (the driver requires a counterexample)
        }
        1 => { // U+0000-U+007F encode to the same single bytes
            let c = sym_u8(0);
            assume(c < 0x80);
            let mut t = Text::new(); t.push(c as u32);
            let mut x = en.new_encoder();
            let mut run = Run::new(16);
            epush8_noreplace(&mut x, EK_SLICE, t.s8(0, t.n8), true, &mut run);
            let ok = run.log.n == 1 && run.log.ev[0].k == K_UNIT && run.log.ev[0].a == c as u32;
            if en.output_encoding().is_ascii_compatible() { reach(70); check(ok, 42); } else { reach(71); check(ok, 43); }
        }
        2 => { // every byte string decodes to as many UTF-16 code units as it has bytes (errors count as one U+FFFD):
               // all 2-byte strings, for ISO-2022-JP after a concrete three-byte escape (param 7 = prefix id of c01::put_prefix)
            let mut s = [0u8; 8];
            let pl = super::c01::put_prefix(param(7), &mut s);
            s[pl] = sym_u8(0); s[pl + 1] = sym_u8(1);
            let mut d = en.new_decoder_without_bom_handling();
            let mut run = Run::new(12);
            push_replace(&mut d, SK_U16, &s[..pl + 2], true, &mut run);
            if en.is_single_byte() { reach(70); check(run.log.n == pl + 2, 44); } else { reach(71); check(run.log.n == pl + 2, 45); }
        }
        3 => { // every mappable character encodes to one byte
            let s = sym_u16(0);
            assume(s as usize >= param(4) && s as usize <= param(5));
            let c = param(3) as u32 + s as u32;
            assume(!(c >= 0xD800 && c <= 0xDFFF) && c <= 0x10FFFF);
            let mut t = Text::new(); t.push(c);
            let mut x = en.new_encoder();
            let mut run = Run::new(16);
            epush8_noreplace(&mut x, EK_SLICE, t.s8(0, t.n8), true, &mut run);
            let unm = run.had_errors;
            if en.is_single_byte() { reach(70); check(unm || run.log.n == 1, 46); } else { reach(71); check(unm || run.log.n == 1, 47); }
        }
        _ => { // no scalar value is unmappable
            let s = sym_u16(0);
            assume(s as usize >= param(4) && s as usize <= param(5));
            let c = param(3) as u32 + s as u32;
            assume(!(c >= 0xD800 && c <= 0xDFFF) && c <= 0x10FFFF);
            let mut t = Text::new(); t.push(c);
            let mut x = en.new_encoder();
            let mut run = Run::new(16);
            epush8_noreplace(&mut x, EK_SLICE, t.s8(0, t.n8), true, &mut run);
            if en.can_encode_everything() { reach(70); check(!run.had_errors, 48); } else { reach(71); check(!run.had_errors, 49); }
        }
    }
    reach(END);
});

// output_encoding() is idempotent, equals new_encoder().encoding() and encode()'s third result; == and Hash identify
// exactly the 40 instances (pairwise), each reachable through its own name.  Concrete.
harness!(se_h_c20_identity, c20_identity, {
    let mut i = 0;
    while i < 40 {
        let a = enc(i);
        let o = a.output_encoding();
        check(o.output_encoding() == o, 1);
        check(a.new_encoder().encoding() == o, 2);
        let (_, used, _) = a.encode("a");
        check(used == o, 3);
        check(o.can_encode_everything() == (o == UTF_8), 4);      // documented: only the UTF-8 encoder has no unmappable scalar value
        check(Encoding::for_label(a.name().as_bytes()) == Some(a), 5);
        let mut j = 0;
        while j < 40 {
            let b = enc(j);
            check((a == b) == (i == j), 6);
            check((a.name() == b.name()) == (i == j), 7);
            j += 1;
        }
        i += 1;
    }
    reach(END);
});
