// C19: latin1_byte_compatible_up_to is exact and does not disturb the decoder.
use crate::*;
use super::se::*;
use super::encs::*;
use super::refdec::*;
use super::drv::*;
use super::c01::put_prefix;

// A decoder D and twins fed the same prefix (concrete escape prefix + p symbolic bytes, pushed with last=false).
// Then the query on a buffer of k ASCII + W symbolic + s ASCII bytes.
// params: 0 encoding, 1 max symbolic prefix length, 2 window W, 3/4 range of k, 5/6 first-byte shard of the prefix,
//         7 concrete prefix id, 8 BOM mode, 9 max s
harness!(se_h_c19, c19, {
    let e = param(0);
    let bom = param(8);
    let mut pre = [0u8; 16];
    let mut plen = put_prefix(param(7), &mut pre);
    let p = sym_range(100, 0, param(1));
    let mut i = 0;
    while i < p { pre[plen + i] = sym_u8(i as u32); i += 1; }
    if p > 0 { assume(pre[plen] >= param(5) as u8 && pre[plen] <= param(6) as u8); }
    plen += p;
    let k = sym_range(101, param(3), param(4));
    let w = param(2);
    let s = sym_range(102, 0, param(9));
    let mut buf = [0u8; 64];
    i = 0; while i < k { buf[i] = 0x61 + (i % 20) as u8; i += 1; }
    i = 0; while i < w { buf[k + i] = sym_u8(20 + i as u32); i += 1; }
    i = 0; while i < s { buf[k + w + i] = 0x41 + (i % 20) as u8; i += 1; }
    let len = k + w + s;
    let b = &buf[..len];

    let mut d = new_decoder(e, bom);
    let mut t1 = new_decoder(e, bom);
    let mut t2 = new_decoder(e, bom);
    let mut t4 = new_decoder(e, bom);
    let mut r0 = Run::new(56); let mut r1 = Run::new(56); let mut r2 = Run::new(56); let mut r4 = Run::new(56);
    push_noreplace(&mut d, SK_U16, &pre[..plen], false, &mut r0);
    push_noreplace(&mut t1, SK_U16, &pre[..plen], false, &mut r1);
    push_noreplace(&mut t2, SK_U16, &pre[..plen], false, &mut r2);
    push_noreplace(&mut t4, SK_U16, &pre[..plen], false, &mut r4);

    let r = d.latin1_byte_compatible_up_to(b);

    // is anything pending?  flush a twin: the end of the stream must produce nothing
    let before = r2.log.n;
    push_noreplace(&mut t2, SK_U16, &pre[plen..plen], true, &mut r2);
    let nothing_pending = r2.log.n == before;
    let used = d.encoding();
    let bom_wait_at_start = plen == 0 && (bom == BOM_SNIFF || (bom == BOM_REMOVE && (e == E_UTF_8 || e == E_UTF_16BE || e == E_UTF_16LE)));
    let never = used == UTF_16BE || used == UTF_16LE || used == REPLACEMENT;
    match r {
        None => {
            reach(60);
            // None is only allowed for a pending sequence / BOM wait / a never-compatible encoding / ISO-2022-JP outside ASCII
            check(!nothing_pending || bom_wait_at_start || never || used == ISO_2022_JP, 1);
        }
        Some(n) => {
            reach(61);
            check(nothing_pending && !bom_wait_at_start && !never, 2);
            check(n <= len, 3);
            // (i) the first n bytes decode, in this very state, to exactly the scalar values equal to the byte values
            let b1 = r1.log.n;
            push_noreplace(&mut t1, SK_U16, &b[..n], false, &mut r1);
            check(r1.log.n == b1 + n, 4);
            let mut j = 0;
            while j < n && b1 + j < r1.log.n { check(r1.log.ev[b1 + j].k == K_UNIT && r1.log.ev[b1 + j].a == b[j] as u32, 5); j += 1; }
            // (ii) it does not stop short: byte n, decoded on its own by a fresh decoder of the same encoding, does not
            // simply yield its own value
            if n < len {
                let mut f = used.new_decoder_without_bom_handling();
                let mut rf = Run::new(8);
                push_noreplace(&mut f, SK_U16, &b[n..n + 1], false, &mut rf);
                let same = rf.log.n == 1 && rf.log.ev[0].k == K_UNIT && rf.log.ev[0].a == b[n] as u32;
                check(!same, 6);
                reach(62);
            }
        }
    }
    // (iv) the query did not disturb the decoder: its subsequent output equals that of an untouched twin
    let d0 = r0.log.n; let t0 = r4.log.n;
    push_noreplace(&mut d, SK_U16, b, true, &mut r0);
    push_noreplace(&mut t4, SK_U16, b, true, &mut r4);
    check(r0.log.n - d0 == r4.log.n - t0, 7);
    let mut j = 0;
    while d0 + j < r0.log.n && t0 + j < r4.log.n {
        check(r0.log.ev[d0 + j].k == r4.log.ev[t0 + j].k && r0.log.ev[d0 + j].a == r4.log.ev[t0 + j].a && r0.log.ev[d0 + j].b == r4.log.ev[t0 + j].b, 8);
        j += 1;
    }
    if !nothing_pending { reach(63); }
    reach(END);
});
