// C19: latin1_byte_compatible_up_to is exact and does not disturb the decoder.
use crate::*;
use super::se::*;
use super::encs::*;
use super::refdec::*;
use super::drv::*;
use super::c01::put_prefix;

// A decoder D and twins fed the same prefix (concrete escape prefix + p symbolic bytes, pushed with last=false).
// Then the query on a buffer of k ASCII + W symbolic + s ASCII bytes.
// params: 0 encoding, 1 max symbolic prefix length, 2 window W, 3/4 range of k, 5/6 first-byte shard of the prefix,
//         7 concrete prefix id, 8 BOM mode, 9 max s
harness!(se_h_c19, c19, {
    let e = param(0);
    let bom = param(8);
    let mut pre = [0u8; 16];
    let mut plen = put_prefix(param(7), &mut pre);
    let p = sym_range(100, 0, param(1));
    let mut i = 0;
    while i < p { pre[plen + i] = sym_u8(i as u32); i += 1; }
    if p > 0 { assume(pre[plen] >= param(5) as u8 && pre[plen] <= param(6) as u8); }
    plen += p;
    let k = sym_range(101, param(3), param(4));
    let w = param(2);
    let s = sym_range(102, 0, param(9));
    let mut buf = [0u8; 64];
    i = 0; while i < k { buf[i] = 0x61 + (i % 20) as u8; i += 1; }
    i = 0; while i < w { buf[k + i] = sym_u8(20 + i as u32); i += 1; }
    i = 0; while i < s { buf[k + w + i] = 0x41 + (i % 20) as u8; i += 1; }
    let len = k + w + s;
    let b = &buf[..len];

    let mut d = new_decoder(e, bom);
    let mut t1 = new_decoder(e, bom);
    let mut t2 = new_decoder(e, bom);
    let mut t4 = new_decoder(e, bom);
    let mut r0 = Run::new(56); let mut r1 = Run::new(56); let mut r2 = Run::new(56); let mut r4 = Run::new(56);
    push_noreplace(&mut d, SK_U16, &pre[..plen], false, &mut r0);
    push_noreplace(&mut t1, SK_U16, &pre[..plen], false, &mut r1);
    push_noreplace(&mut t2, SK_U16, &pre[..plen], false, &mut r2);
    push_noreplace(&mut t4, SK_U16, &pre[..plen], false, &mut r4);

    let r = d.latin1_byte_compatible_up_to(b);

    // is anything pending?  flush a twin: the end of the stream must produce nothing
    let before = r2.log.n;
    push_noreplace(&mut t2, SK_U16, &pre[plen..plen], true, &mut r2);
    let nothing_pending = r2.log.n == before;
    let used = d.encoding();
    let bom_wait_at_start = plen == 0 && (bom == BOM_SNIFF || (bom == BOM_REMOVE && (e == E_UTF_8 || e == E_UTF_16BE || e == E_UTF_16LE)));
    let never = used == UTF_16BE || used == UTF_16LE || used == REPLACEMENT;
    match r {
        None => {
            reach(60);
            // None is only allowed for a pending sequence / BOM wait / a never-compatible encoding / ISO-2022-JP outside ASCII
            check(!nothing_pending || bom_wait_at_start || never || used == ISO_2022_JP, 1);
        }
        Some(n) => {
            reach(61);
            check(nothing_pending && !bom_wait_at_start && !never, 2);
            check(n <= len, 3);
            // (i) the first n bytes decode, in this very state, to exactly the scalar values equal to the byte values
            let b1 = r1.log.n;
            push_noreplace(&mut t1, SK_U16, &b[..n], false, &mut r1);
            check(r1.log.n == b1 + n, 4);
            let mut j = 0;
            while j < n && b1 + j < r1.log.n { check(r1.log.ev[b1 + j].k == K_UNIT && r1.log.ev[b1 + j].a == b[j] as u32, 5); j += 1; }
            // (ii) it does not stop short: byte n, decoded on its own by a fresh decoder of the same encoding, does not
            // simply yield its own value
            if n < len {
                if used.is_single_byte() {
                    // single-byte encodings: byte n is precisely the first byte that decodes to something else
                    let mut f = used.new_decoder_without_bom_handling();
                    let mut rf = Run::new(8);
                    push_noreplace(&mut f, SK_U16, &b[n..n + 1], false, &mut rf);
                    let same = rf.log.n == 1 && rf.log.ev[0].k == K_UNIT && rf.log.ev[0].a == b[n] as u32;
                    check(!same, 6);
                } else {
                    // other encodings: n must not stop inside a run of ASCII bytes the encoding passes through unchanged
                    // (the property asks no more: e.g. Shift_JIS 0x80 -> U+0080 is not counted by the crate, which is conservative)
                    let c = b[n];
                    let pass_through_ascii = c < 0x80 && !(used == ISO_2022_JP && (c == 0x1B || c == 0x0E || c == 0x0F));
                    check(!pass_through_ascii, 9);
                }
                reach(62);
            }
        }
    }
    // (iv) the query did not disturb the decoder: its subsequent output equals that of an untouched twin
    let d0 = r0.log.n; let t0 = r4.log.n;
    push_noreplace(&mut d, SK_U16, b, true, &mut r0);
    push_noreplace(&mut t4, SK_U16, b, true, &mut r4);
    check(r0.log.n - d0 == r4.log.n - t0, 7);
    let mut j = 0;
    while d0 + j < r0.log.n && t0 + j < r4.log.n {
        check(r0.log.ev[d0 + j].k == r4.log.ev[t0 + j].k && r0.log.ev[d0 + j].a == r4.log.ev[t0 + j].a && r0.log.ev[d0 + j].b == r4.log.ev[t0 + j].b, 8);
        j += 1;
    }
    if !nothing_pending { reach(63); }
    reach(END);
});

// Query point inside the caller loop: a decoder and a lock-step twin are fed the same symbolic stream call by call
// (large sink); right after the first call that returns Malformed - when deferred output such as gb18030's pending
// ASCII byte may be waiting - latin1_byte_compatible_up_to is asked about the unconsumed remainder.  Some(n) must be
// sound: the twin, continuing from the same state, decodes the next n bytes to exactly those byte values.
// params: 0 encoding, 1/2 symbolic byte count, 5/6 first-byte shard, 7 prefix id, 8 BOM mode, 9 destination capacity in UTF-16
//         units (0 = 40, large; small values make OutputFull returns - the other kind of mid-buffer return - possible),
//         10 != 0: the stream is cut at a symbolic point into two non-last buffers (the BOM front end withholds bytes only at
//         the end of a buffer)
harness!(se_h_c19_mid, c19_mid, {
    let e = param(0);
    let mut src = [0u8; 16];
    let mut len = put_prefix(param(7), &mut src);
    let n = sym_range(100, param(1), param(2));
    let mut i = 0;
    while i < n { src[len + i] = sym_u8(i as u32); i += 1; }
    if n > 0 { assume(src[len] >= param(5) as u8 && src[len] <= param(6) as u8); }
    len += n;
    let cap = if param(9) == 0 { 40 } else { param(9) };
    let cut = if param(10) != 0 { sym_range(101, 0, len) } else { len };
    let segs = [(0usize, cut), (cut, len)];
    let mut d = new_decoder(e, param(8));
    let mut t = new_decoder(e, param(8));
    let mut calls = 0;
    let mut queried = false;
    let mut s = 0;
    while s < 2 && !queried {
        let (a, b) = segs[s];
        let mut pos = a;
        loop {
            let mut o1 = [0u16; 40]; let mut o2 = [0u16; 40];
            let (r1, rd1, _w1) = d.decode_to_utf16_without_replacement(&src[pos..b], &mut o1[..cap], false);
            let (r2, rd2, _w2) = t.decode_to_utf16_without_replacement(&src[pos..b], &mut o2[..cap], false);
            check(rd1 == rd2, 1);
            pos += rd1;
            calls += 1;
            check(calls < 24, 2);
            match r1 {
                DecoderResult::InputEmpty => { check(r2 == DecoderResult::InputEmpty, 3); break; }
                _ => {
                    if r1 == DecoderResult::OutputFull { check(cap < 40, 4); reach(67); } else { reach(64); }
                    let rest = &src[pos..b];
                    if let Some(k) = d.latin1_byte_compatible_up_to(rest) {
                        reach(65);
                        check(k <= rest.len(), 5);
                        let mut out = [0u16; 40];
                        let (r, rd, w) = t.decode_to_utf16_without_replacement(&rest[..k], &mut out, false);
                        check(r == DecoderResult::InputEmpty && rd == k, 6);
                        check(w == k, 7);
                        let mut j = 0;
                        while j < k && j < w { check(out[j] == rest[j] as u16, 8); j += 1; }
                    } else { reach(66); }
                    queried = true;
                    break;
                }
            }
        }
        s += 1;
    }
    reach(END);
});
