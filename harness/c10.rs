// C10: BOM sniffing, BOM removal and no-BOM modes behave as documented for any split.
use crate::*;
use super::se::*;
use super::encs::*;
use super::refdec::*;
use super::drv::*;

/// The Standard's "decode" (BOM sniff, then the decoder of the selected encoding) resp. the documented
/// behaviour of the BOM-removal and no-BOM modes: returns (encoding index used, number of BOM bytes skipped)
fn expected_bom(e: usize, bom: usize, b: &[u8]) -> (usize, usize) {
    let utf8 = b.len() >= 3 && b[0] == 0xEF && b[1] == 0xBB && b[2] == 0xBF;
    let be = b.len() >= 2 && b[0] == 0xFE && b[1] == 0xFF;
    let le = b.len() >= 2 && b[0] == 0xFF && b[1] == 0xFE;
    match bom {
        BOM_SNIFF => {
            if utf8 { (E_UTF_8, 3) } else if be { (E_UTF_16BE, 2) } else if le { (E_UTF_16LE, 2) } else { (e, 0) }
        }
        BOM_REMOVE => {
            if e == E_UTF_8 && utf8 { (e, 3) } else if e == E_UTF_16BE && be { (e, 2) } else if e == E_UTF_16LE && le { (e, 2) } else { (e, 0) }
        }
        _ => (e, 0),
    }
}

// params: 0 nominal encoding, 1/2 range of symbolic byte count, 3 sink, 4 replacement, 8 BOM mode,
//         9/10 capacity range (per call, symbolic if different), 11 number of cuts (0..3), 12 empty final call allowed,
//         13 k != 0: only the first k calls use that range (one symbolic value for all of them), later calls get a large destination
harness!(se_h_c10_bom, c10_bom, {
    let e = param(0);
    let sink = param(3);
    let repl = param(4) != 0;
    let bom = param(8);
    let ncuts = param(11);
    let mut src = [0u8; 8];
    let n = sym_range(100, param(1), param(2));
    let mut i = 0;
    while i < n { src[i] = sym_u8(i as u32); i += 1; }
    let len = n;
    // shard: class of the first byte (0 = EF, 1 = FE/FF, 2 = anything else) so that jobs stay small
    match param(5) {
        0 => { if n > 0 { assume(src[0] == 0xEF); } }
        1 => { if n > 0 { assume(src[0] == 0xFE || src[0] == 0xFF); } }
        2 => { if n > 0 { assume(src[0] != 0xEF && src[0] != 0xFE && src[0] != 0xFF); } }
        _ => {}
    }
    // cuts among the first four bytes
    let lim = if len < 4 { len } else { 4 };
    let c1 = if ncuts >= 1 { sym_range(101, 0, lim) } else { len };
    let c2 = if ncuts >= 2 { sym_range(102, c1, lim) } else { if ncuts >= 1 { len } else { len } };
    let c3 = if ncuts >= 3 { sym_range(103, c2, lim) } else { len };
    let empty_last = if param(12) != 0 { sym_range(104, 0, 1) } else { 0 };
    let mut dec = new_decoder(e, bom);
    let mut run = Run::new(param(9));
    if param(10) > param(9) { run.sym_caps(param(9), param(10), 2); }
    // param 13: the first call(s) offer a tiny destination (possibly below the documented minimum, down to empty), then a large one
    if param(13) != 0 { run.sym_caps(param(9), param(10), 1); run.grow = true; run.grow_calls = param(13); run.min_progress = false; }
    let last_in_data = empty_last == 0;
    if ncuts == 0 {
        push(&mut dec, sink, repl, &src[..len], last_in_data, &mut run);
    } else {
        push(&mut dec, sink, repl, &src[..c1], false, &mut run);
        if ncuts == 1 {
            push(&mut dec, sink, repl, &src[c1..len], last_in_data, &mut run);
        } else {
            push(&mut dec, sink, repl, &src[c1..c2], false, &mut run);
            if ncuts == 2 {
                push(&mut dec, sink, repl, &src[c2..len], last_in_data, &mut run);
            } else {
                push(&mut dec, sink, repl, &src[c2..c3], false, &mut run);
                push(&mut dec, sink, repl, &src[c3..len], last_in_data, &mut run);
            }
        }
    }
    if !last_in_data { push(&mut dec, sink, repl, &src[len..len], true, &mut run); }
    check(run.finished, 1);
    check(run.total_read == len, 3);

    let (ee, skip) = expected_bom(e, bom, &src[..len]);
    check(dec.encoding() == enc(ee), 6);
    // expected output: reference decoder of the selected encoding over the rest, spans shifted by the BOM length
    let mut exp0 = Log::new();
    let had = ref_log(ee, &src[skip..len], sink, repl, &mut exp0);
    let mut exp = Log::new();
    let mut k = 0;
    while k < exp0.n {
        let ev = exp0.ev[k];
        if ev.k == K_ERR { exp.push(K_ERR, ev.a + skip as u32, ev.b); } else { exp.push(ev.k, ev.a, ev.b); }
        k += 1;
    }
    same_log(&run.log, &exp, 10);
    if repl { check(run.had_errors == had, 2); }
    if skip > 0 { reach(40); }
    if ee != e { reach(41); }
    if skip == 0 && len >= 2 && src[0] == 0xEF && src[1] == 0xBB { reach(42); }   // withheld look-alike prefix EF BB x
    if skip == 0 && len >= 1 && (src[0] == 0xFE || src[0] == 0xFF) { reach(43); }
    if len < 3 && len > 0 && src[0] == 0xEF { reach(44); }                        // stream ends inside a potential BOM
    if run.output_full_seen { reach(30); }
    if had { reach(20); } else { reach(21); }
    reach(END);
});

// Encoding::for_bom recognises exactly the three prefixes, with lengths 3, 2, 2.   params: 1 = max length
harness!(se_h_c10_for_bom, c10_for_bom, {
    let n = sym_range(100, 0, param(1));
    let mut b = [0u8; 8];
    let mut i = 0;
    while i < n { b[i] = sym_u8(i as u32); i += 1; }
    let r = Encoding::for_bom(&b[..n]);
    let (ee, skip) = expected_bom(E_REPLACEMENT, BOM_SNIFF, &b[..n]);
    match r {
        None => { check(skip == 0, 1); reach(50); }
        Some((enc_, l)) => { check(skip != 0, 2); check(l == skip, 3); check(enc_ == enc(ee), 4); reach(51); }
    }
    reach(END);
});
