// C15: mem conversions are exact and respect their partial-output contracts.
use crate::*;
use crate::mem::*;
use super::se::*;
use super::refs;

/// lossy UTF-8 -> scalars: one U+FFFD per maximal ill-formed subpart
fn ref_utf8_scalars(b: &[u8], out: &mut [u32]) -> (usize, bool) {
    let mut i = 0usize; let mut n = 0usize; let mut valid = true;
    while i < b.len() {
        let l = refs::utf8_seq_len(&b[i..]);
        if l == 0 { out[n] = 0xFFFD; n += 1; i += refs::utf8_bad_len(&b[i..]); valid = false; }
        else { out[n] = refs::utf8_scalar(&b[i..], l); n += 1; i += l; }
    }
    (n, valid)
}

/// UTF-16 -> scalars with the end offset of each character: one U+FFFD per unpaired surrogate
fn ref_utf16_scalars(b: &[u16], out: &mut [u32], ends: &mut [usize]) -> usize {
    let mut i = 0usize; let mut n = 0usize;
    while i < b.len() {
        let u = b[i] as u32;
        if refs::is_high(b[i]) && i + 1 < b.len() && refs::is_low(b[i + 1]) { out[n] = 0x10000 + ((u - 0xD800) << 10) + (b[i + 1] as u32 - 0xDC00); i += 2; }
        else if u >= 0xD800 && u <= 0xDFFF { out[n] = 0xFFFD; i += 1; }
        else { out[n] = u; i += 1; }
        n += 1; ends[n] = i;
    }
    n
}

const GUARD8: u8 = 0xA5;
const GUARD16: u16 = 0xA5A5;

fn eq8(a: &[u8], b: &[u8], id: u32) { check(a.len() == b.len(), id); let n = if a.len() < b.len() { a.len() } else { b.len() }; let mut i = 0; while i < n { check(a[i] == b[i], id + 1); i += 1; } }
fn eq16(a: &[u16], b: &[u16], id: u32) { check(a.len() == b.len(), id); let n = if a.len() < b.len() { a.len() } else { b.len() }; let mut i = 0; while i < n { check(a[i] == b[i], id + 1); i += 1; } }

// UTF-8 (or Latin1) source of n fully symbolic bytes after `pre` ASCII filler bytes.
// params: 0 function, 1 max n, 2 filler length before (concrete), 3 destination length delta relative to the documented
//         sufficient size (0 = exactly sufficient, k = sufficient + k; for the *_partial functions: the range 0..=sufficient+1 is symbolic)
harness!(se_h_c15_from8, c15_from8, {
    let f = param(0);
    let pre = param(2);
    let n = sym_range(100, 0, param(1));
    let mut src = [0u8; 64];
    let mut i = 0;
    while i < pre { src[i] = 0x61 + (i % 20) as u8; i += 1; }
    // param 4: a concrete character between the filler and the symbolic bytes (0 none, 1 two-byte U+00E4, 2 three-byte U+20AC,
    // 3 four-byte U+1F600): the conversion loops hand over to the "next lead" logic differently after each sequence length
    let lead: &[u8] = match param(4) { 1 => b"\xC3\xA4", 2 => b"\xE2\x82\xAC", 3 => b"\xF0\x9F\x98\x80", _ => b"" };
    let pre = { let mut j = 0; while j < lead.len() { src[pre + j] = lead[j]; j += 1; } pre + lead.len() };
    i = 0;
    while i < n { src[pre + i] = sym_u8(i as u32); i += 1; }
    let len = pre + n;
    let s = &src[..len];
    let mut cps = [0u32; 64];
    let (nc, valid) = ref_utf8_scalars(s, &mut cps);
    let mut e16 = [0u16; 130]; let mut n16 = 0usize;
    let mut k = 0; while k < nc { n16 += refs::put_utf16(cps[k], &mut e16[n16..]); k += 1; }
    let mut d16 = [GUARD16; 140];
    let mut d8 = [GUARD8; 200];
    match f {
        0 => { // convert_utf8_to_utf16: dst.len() >= src.len() + 1
            let dl = len + 1 + param(3);
            let w = convert_utf8_to_utf16(s, &mut d16[..dl]);
            eq16(&d16[..w], &e16[..n16], 10);
            check(d16[dl] == GUARD16, 3);
        }
        1 => { // convert_str_to_utf16: dst.len() >= src.len()
            assume(valid);
            let dl = len + param(3);
            let w = convert_str_to_utf16(unsafe { core::str::from_utf8_unchecked(s) }, &mut d16[..dl]);
            eq16(&d16[..w], &e16[..n16], 10);
            check(d16[dl] == GUARD16, 3);
        }
        2 => { // convert_utf8_to_utf16_without_replacement: None exactly for invalid input
            let dl = len + param(3);
            match convert_utf8_to_utf16_without_replacement(s, &mut d16[..dl]) {
                None => { check(!valid, 4); reach(22); }
                Some(w) => { check(valid, 5); eq16(&d16[..w], &e16[..n16], 10); }
            }
            check(d16[dl] == GUARD16, 3);
        }
        3 => { // convert_latin1_to_utf16: dst.len() >= src.len()
            let dl = len + param(3);
            convert_latin1_to_utf16(s, &mut d16[..dl]);
            let mut j = 0; while j < len { check(d16[j] == s[j] as u16, 12); j += 1; }
            check(d16[dl] == GUARD16, 3);
        }
        4 | 5 => { // convert_latin1_to_utf8 (dst >= 2*src) / convert_latin1_to_str
            let dl = 2 * len + param(3);
            let w = if f == 4 { convert_latin1_to_utf8(s, &mut d8[..dl]) }
                    else { let mut z = [0u8; 200]; let w = convert_latin1_to_str(s, unsafe { core::str::from_utf8_unchecked_mut(&mut z[..dl]) });
                           check(refs::utf8_valid_up_to(&z[..dl]) == dl, 6); let mut j = 0; while j < dl { d8[j] = z[j]; j += 1; } w };
            let mut e8 = [0u8; 140]; let mut m = 0usize; let mut j = 0;
            while j < len { m += refs::put_utf8(s[j] as u32, &mut e8[m..]); j += 1; }
            eq8(&d8[..w], &e8[..m], 10);
            check(d8[dl] == GUARD8, 3);
        }
        6 | 7 => { // convert_latin1_to_utf8_partial / convert_latin1_to_str_partial: any destination length
            let dl = sym_range(101, 0, 2 * len + 1);
            let mut z = [0u8; 200];
            let (r, w) = if f == 6 { convert_latin1_to_utf8_partial(s, &mut d8[..dl]) }
                         else { let (r, w) = convert_latin1_to_str_partial(s, unsafe { core::str::from_utf8_unchecked_mut(&mut z[..dl]) });
                                check(refs::utf8_valid_up_to(&z[..dl]) == dl, 6); let mut j = 0; while j < w { d8[j] = z[j]; j += 1; } (r, w) };
            check(r <= len && w <= dl, 7);
            let mut e8 = [0u8; 140]; let mut m = 0usize; let mut j = 0;
            while j < r { m += refs::put_utf8(s[j] as u32, &mut e8[m..]); j += 1; }
            eq8(&d8[..w], &e8[..m], 10);
            // as many whole characters as fit: either everything was read or the next character does not fit
            if r < len { let need = if s[r] < 0x80 { 1 } else { 2 }; check(w + need > dl, 8); reach(24); }
            check(d8[dl] == GUARD8, 3);
        }
        8 => { // convert_utf8_to_latin1_lossy: input must be UTF-8 for U+0000..U+00FF only; dst.len() >= src.len()
            let mut ok = valid; let mut j = 0; while j < nc { if cps[j] > 0xFF { ok = false; } j += 1; }
            assume(ok);
            let dl = len + param(3);
            let w = convert_utf8_to_latin1_lossy(s, &mut d8[..dl]);
            check(w == nc, 10);
            j = 0; while j < nc { check(d8[j] as u32 == cps[j], 11); j += 1; }
            check(d8[dl] == GUARD8, 3);
        }
        9 => { // decode_latin1
            let c = decode_latin1(s);
            let b = c.as_bytes();
            let mut e8 = [0u8; 140]; let mut m = 0usize; let mut j = 0;
            while j < len { m += refs::put_utf8(s[j] as u32, &mut e8[m..]); j += 1; }
            eq8(b, &e8[..m], 10);
            let borrowed = match c { alloc::borrow::Cow::Borrowed(_) => true, _ => false };
            check(borrowed == (refs::ascii_up_to(s) == len), 13);
        }
        10 => { // encode_latin1_lossy on a str representing Latin1 only
            let mut ok = valid; let mut j = 0; while j < nc { if cps[j] > 0xFF { ok = false; } j += 1; }
            assume(ok);
            let c = encode_latin1_lossy(unsafe { core::str::from_utf8_unchecked(s) });
            check(c.len() == nc, 10);
            j = 0; while j < nc { check(c[j] as u32 == cps[j], 11); j += 1; }
            let borrowed = match c { alloc::borrow::Cow::Borrowed(_) => true, _ => false };
            check(borrowed == (refs::ascii_up_to(s) == len), 13);
        }
        11 | 12 => { // copy_ascii_to_ascii / copy_ascii_to_basic_latin: stop at the first non-ASCII unit
            let dl = len + param(3);
            let w = if f == 11 { copy_ascii_to_ascii(s, &mut d8[..dl]) } else { copy_ascii_to_basic_latin(s, &mut d16[..dl]) };
            check(w == refs::ascii_up_to(s), 10);
            let mut j = 0; while j < w { if f == 11 { check(d8[j] == s[j], 11); } else { check(d16[j] == s[j] as u16, 11); } j += 1; }
            if f == 11 { check(d8[dl] == GUARD8, 3); } else { check(d16[dl] == GUARD16, 3); }
        }
        _ => {}
    }
    if !valid { reach(20); } else { reach(21); }
    reach(END);
});

// UTF-16 source of n fully symbolic units after `pre` ASCII filler units.   params as above
harness!(se_h_c15_from16, c15_from16, {
    let f = param(0);
    let pre = param(2);
    let n = sym_range(100, 0, param(1));
    let mut src = [0u16; 64];
    let mut i = 0;
    while i < pre { src[i] = 0x61 + (i % 20) as u16; i += 1; }
    // param 4: a concrete character between the filler and the symbolic units (0 none, 1 U+00E4, 2 U+20AC, 3 the pair for U+1F600)
    let lead: &[u16] = match param(4) { 1 => &[0x00E4], 2 => &[0x20AC], 3 => &[0xD83D, 0xDE00], _ => &[] };
    let pre = { let mut j = 0; while j < lead.len() { src[pre + j] = lead[j]; j += 1; } pre + lead.len() };
    i = 0;
    while i < n { src[pre + i] = sym_u16(i as u32); i += 1; }
    let len = pre + n;
    let s = &src[..len];
    let mut cps = [0u32; 64]; let mut ends = [0usize; 65];
    let nc = ref_utf16_scalars(s, &mut cps, &mut ends);
    let mut d8 = [GUARD8; 220];
    match f {
        0 | 1 => { // convert_utf16_to_utf8 (dst >= 3*src) / convert_utf16_to_str
            let dl = 3 * len + param(3);
            let mut z = [0u8; 220];
            let w = if f == 0 { convert_utf16_to_utf8(s, &mut d8[..dl]) }
                    else { let w = convert_utf16_to_str(s, unsafe { core::str::from_utf8_unchecked_mut(&mut z[..dl]) });
                           check(refs::utf8_valid_up_to(&z[..dl]) == dl, 6); let mut j = 0; while j < w { d8[j] = z[j]; j += 1; } w };
            let mut e8 = [0u8; 220]; let mut m = 0usize; let mut k = 0;
            while k < nc { m += refs::put_utf8(cps[k], &mut e8[m..]); k += 1; }
            eq8(&d8[..w], &e8[..m], 10);
            check(d8[dl] == GUARD8, 3);
        }
        2 | 3 => { // convert_utf16_to_utf8_partial / convert_utf16_to_str_partial: any destination length
            let dl = sym_range(101, 0, 3 * len + 1);
            let mut z = [0u8; 220];
            let (r, w) = if f == 2 { convert_utf16_to_utf8_partial(s, &mut d8[..dl]) }
                         else { let (r, w) = convert_utf16_to_str_partial(s, unsafe { core::str::from_utf8_unchecked_mut(&mut z[..dl]) });
                                check(refs::utf8_valid_up_to(&z[..dl]) == dl, 6); let mut j = 0; while j < w { d8[j] = z[j]; j += 1; } (r, w) };
            check(r <= len && w <= dl, 7);
            // never splits a character or a surrogate pair: r is a character boundary of the reference segmentation
            let mut kb = 0usize; let mut found = false; let mut k = 0;
            while k <= nc { if ends[k] == r { found = true; kb = k; } k += 1; }
            check(found, 9);
            let mut e8 = [0u8; 220]; let mut m = 0usize; k = 0;
            while k < kb { m += refs::put_utf8(cps[k], &mut e8[m..]); k += 1; }
            eq8(&d8[..w], &e8[..m], 10);
            if r < len { let c = cps[kb]; let need = if c < 0x80 { 1 } else if c < 0x800 { 2 } else if c < 0x10000 { 3 } else { 4 }; check(w + need > dl, 8); reach(24); }
            check(d8[dl] == GUARD8, 3);
        }
        4 => { // convert_utf16_to_latin1_lossy: input must be U+0000..U+00FF only; dst.len() >= src.len()
            let mut j = 0; while j < len { assume(s[j] <= 0xFF); j += 1; }
            let dl = len + param(3);
            convert_utf16_to_latin1_lossy(s, &mut d8[..dl]);
            j = 0; while j < len { check(d8[j] as u16 == s[j], 11); j += 1; }
            check(d8[dl] == GUARD8, 3);
        }
        5 => { // ensure_utf16_validity rewrites only unpaired surrogates
            let mut b = [0u16; 64]; let mut j = 0; while j < len { b[j] = s[j]; j += 1; }
            ensure_utf16_validity(&mut b[..len]);
            check(refs::utf16_valid_up_to(&b[..len]) == len, 14);
            j = 0;
            while j < len {
                let u = s[j];
                let paired = (refs::is_high(u) && j + 1 < len && refs::is_low(s[j + 1])) || (refs::is_low(u) && j > 0 && refs::is_high(s[j - 1]) );
                if (refs::is_high(u) || refs::is_low(u)) && !paired { check(b[j] == 0xFFFD, 15); reach(25); } else { check(b[j] == u, 16); }
                j += 1;
            }
        }
        6 => { // copy_basic_latin_to_ascii
            let dl = len + param(3);
            let w = copy_basic_latin_to_ascii(s, &mut d8[..dl]);
            check(w == refs::basic_latin_up_to(s), 10);
            let mut j = 0; while j < w { check(d8[j] as u16 == s[j], 11); j += 1; }
            check(d8[dl] == GUARD8, 3);
        }
        _ => {}
    }
    reach(END);
});
