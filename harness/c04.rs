// C04: encoder results do not depend on chunking or on UTF-8 vs UTF-16 input form.
use crate::*;
use super::se::*;
use super::encs::*;
use super::refdec::*;
use super::refenc::*;
use super::drv::{Run, same_log};
use super::edrv::*;
use super::c03::neighbour;

fn push_range(enc_: &mut Encoder, t: &Text, source: usize, repl: bool, kind: usize, from: usize, to: usize, last: bool, run: &mut Run) {
    // characters from..to of the text
    if source == SRC_UTF8 {
        let s = t.s8(t.end8[from], t.end8[to]);
        if repl { epush8_replace(enc_, kind, s, last, run); } else { epush8_noreplace(enc_, kind, s, last, run); }
    } else {
        let s = &t.b16[t.end16[from]..t.end16[to]];
        if repl { epush16_replace(enc_, kind, s, last, run); } else { epush16_noreplace(enc_, kind, s, last, run); }
    }
}

/// same bytes and same unmappable characters in the same order; positions (field b of an unmappable report) are
/// compared only when both runs use the same source form
fn same_elog(x: &Log, y: &Log, same_form: bool, base: u32) {
    check(!x.overflow && !y.overflow, base + 4);
    check(x.n == y.n, base);
    let n = if x.n < y.n { x.n } else { y.n };
    let mut i = 0;
    while i < n {
        check(x.ev[i].k == y.ev[i].k, base + 1);
        check(x.ev[i].a == y.ev[i].a, base + 2);
        if same_form || x.ev[i].k != K_ERR { check(x.ev[i].b == y.ev[i].b, base + 3); }
        i += 1;
    }
}

// text:  p ASCII characters (p symbolic in 0..=param 9), [x], c, [y]   with c = plane base + symbolic 16 bits in a window.
// params: 0 encoding, 1 source form of the whole run, 2 replacement, 3 plane base, 4/5 window, 6/7 neighbours,
//         8 sink kind, 9 max ASCII prefix length, 10 source form of the chunked run, 11 number of cuts (1..2),
//         12/13 capacity range per call (symbolic if different), 14 number of calls with an own capacity,
//         15 empty final call allowed
harness!(se_h_c04_chunk, c04_chunk, {
    let e = param(0);
    let form_a = param(1);
    let repl = param(2) != 0;
    let base = param(3) as u32;
    let kind = param(8);
    let form_b = param(10);
    let ncuts = param(11);
    let s = sym_u16(0);
    assume(s as usize >= param(4) && s as usize <= param(5));
    let c = base + s as u32;
    assume(!(c >= 0xD800 && c <= 0xDFFF));
    assume(c <= 0x10FFFF);
    let mut t = Text::new();
    let p = if param(9) > 0 { sym_range(105, 0, param(9)) } else { 0 };
    let mut i = 0;
    while i < p { t.push(0x61 + i as u32); i += 1; }
    if param(6) != 0 { t.push(neighbour(param(6) - 1)); }
    t.push(c);
    if param(7) != 0 { t.push(neighbour(param(7) - 1)); }
    let nch = t.nchars;

    let mut e1 = enc(e).new_encoder();
    let mut whole = Run::new(60);
    push_range(&mut e1, &t, form_a, repl, EK_SLICE, 0, nch, true, &mut whole);
    check(whole.finished, 1);

    let c1 = sym_range(101, 0, nch);
    let c2 = if ncuts >= 2 { sym_range(102, c1, nch) } else { nch };
    let empty_last = if param(15) != 0 { sym_range(103, 0, 1) } else { 0 };
    let last_in_data = empty_last == 0;
    let mut e2 = enc(e).new_encoder();
    let mut parts = Run::new(param(12));
    if param(13) > param(12) { parts.sym_caps(param(12), param(13), if param(14) == 0 { 2 } else { param(14) }); }
    push_range(&mut e2, &t, form_b, repl, kind, 0, c1, false, &mut parts);
    if ncuts >= 2 {
        push_range(&mut e2, &t, form_b, repl, kind, c1, c2, false, &mut parts);
        push_range(&mut e2, &t, form_b, repl, kind, c2, nch, last_in_data, &mut parts);
    } else {
        push_range(&mut e2, &t, form_b, repl, kind, c1, nch, last_in_data, &mut parts);
    }
    if !last_in_data { push_range(&mut e2, &t, form_b, repl, kind, nch, nch, true, &mut parts); }
    check(parts.finished, 2);
    same_elog(&whole.log, &parts.log, form_a == form_b, 10);
    check(whole.had_errors == parts.had_errors, 5);
    check(e1.has_pending_state() == e2.has_pending_state(), 6);
    check(!e2.has_pending_state(), 8);
    if parts.output_full_seen { reach(30); }
    if c1 > 0 && c2 > c1 && c2 < nch { reach(31); }
    if !last_in_data { reach(33); }
    if form_a != form_b { reach(34); }
    if c >= 0x10000 && form_b == SRC_UTF16 && parts.output_full_seen { reach(35); }   // surrogate pair while the sink fills
    if whole.had_errors { reach(20); } else { reach(21); }
    reach(END);
});
