// C18: written output is fully determined by the input, never by the buffer's old bytes.
// Self-composition: the same call history is executed on twin converters whose destinations are pre-filled with two
// independent sets of fresh SYMBOLIC units; return values (inside the drivers) and the written prefixes must be equal
// for every value of both fills.  (For the String / Vec sinks the spare capacity is uninitialised memory by construction:
// any branch on it, or any unit exposed by set_len without having been stored, is flagged by the executor's own checks
// in every run of C02 / C04 / C08 with those sinks.)
use crate::*;
use super::se::*;
use super::encs::*;
use super::refdec::*;
use super::drv::*;
use super::edrv::*;
use super::c01::put_prefix;
use super::c03::neighbour;

// decoder side.  params: 0 encoding, 1/2 symbolic byte count, 3 sink (0 UTF-16, 1 UTF-8, 2 &mut str), 4 replacement,
//                        5/6 first-byte shard, 7 prefix, 8 BOM mode, 9 capacity, 11 cuts (0..1)
harness!(se_h_c18_dec, c18_dec, {
    let e = param(0);
    let sink = param(3);
    let repl = param(4) != 0;
    let mut src = [0u8; 16];
    let mut len = put_prefix(param(7), &mut src);
    let n = sym_range(100, param(1), param(2));
    let mut i = 0;
    while i < n { src[len + i] = sym_u8(i as u32); i += 1; }
    if n > 0 { assume(src[len] >= param(5) as u8 && src[len] <= param(6) as u8); }
    len += n;
    let c1 = if param(11) >= 1 { sym_range(101, 0, len) } else { len };
    let mut d1 = new_decoder(e, param(8));
    let mut d2 = new_decoder(e, param(8));
    let mut r1 = Run::new(param(9));
    let mut r2 = Run::new(param(9));
    r1.sym_fill = 300;
    r2.sym_fill = 400;
    push(&mut d1, sink, repl, &src[..c1], false, &mut r1);
    push(&mut d1, sink, repl, &src[c1..len], true, &mut r1);
    push(&mut d2, sink, repl, &src[..c1], false, &mut r2);
    push(&mut d2, sink, repl, &src[c1..len], true, &mut r2);
    check(r1.finished && r2.finished, 1);
    check(r1.calls == r2.calls && r1.total_read == r2.total_read && r1.had_errors == r2.had_errors, 2);
    same_log(&r1.log, &r2.log, 10);
    if r1.output_full_seen { reach(30); }
    reach(END);
});

// encoder side.  params: 0 encoding, 1 source form, 2 replacement, 3 plane base, 4/5 window, 6/7 neighbours, 9 ASCII prefix max, 12 capacity
harness!(se_h_c18_enc, c18_enc, {
    let e = param(0);
    let form = param(1);
    let repl = param(2) != 0;
    let s = sym_u16(0);
    assume(s as usize >= param(4) && s as usize <= param(5));
    let c = param(3) as u32 + s as u32;
    assume(!(c >= 0xD800 && c <= 0xDFFF) && c <= 0x10FFFF);
    let mut t = Text::new();
    let p = if param(9) > 0 { sym_range(105, 0, param(9)) } else { 0 };
    let mut i = 0;
    while i < p { t.push(0x61 + i as u32); i += 1; }
    if param(6) != 0 { t.push(neighbour(param(6) - 1)); }
    t.push(c);
    if param(7) != 0 { t.push(neighbour(param(7) - 1)); }
    let mut e1 = enc(e).new_encoder();
    let mut e2 = enc(e).new_encoder();
    let mut r1 = Run::new(param(12));
    let mut r2 = Run::new(param(12));
    r1.sym_fill = 300;
    r2.sym_fill = 400;
    if form == SRC_UTF8 {
        if repl { epush8_replace(&mut e1, EK_SLICE, t.s8(0, t.n8), true, &mut r1); epush8_replace(&mut e2, EK_SLICE, t.s8(0, t.n8), true, &mut r2); }
        else { epush8_noreplace(&mut e1, EK_SLICE, t.s8(0, t.n8), true, &mut r1); epush8_noreplace(&mut e2, EK_SLICE, t.s8(0, t.n8), true, &mut r2); }
    } else if repl { epush16_replace(&mut e1, EK_SLICE, &t.b16[..t.n16], true, &mut r1); epush16_replace(&mut e2, EK_SLICE, &t.b16[..t.n16], true, &mut r2); }
    else { epush16_noreplace(&mut e1, EK_SLICE, &t.b16[..t.n16], true, &mut r1); epush16_noreplace(&mut e2, EK_SLICE, &t.b16[..t.n16], true, &mut r2); }
    check(r1.finished && r2.finished, 1);
    check(r1.calls == r2.calls && r1.total_read == r2.total_read && r1.had_errors == r2.had_errors, 2);
    same_log(&r1.log, &r2.log, 10);
    if r1.output_full_seen { reach(30); }
    reach(END);
});

// mem conversions: destination pre-filled with symbolic units, twin runs.   params: 0 function (0 utf8->utf16, 1 utf16->utf8 partial,
//   2 latin1->utf8 partial, 3 utf16->utf8, 4 latin1->utf16, 5 utf8->latin1 lossy), 1 max n, 2 ASCII filler length
harness!(se_h_c18_mem, c18_mem, {
    let f = param(0);
    let pre = param(2);
    let n = sym_range(100, 0, param(1));
    let mut s8 = [0u8; 48]; let mut s16 = [0u16; 48];
    let mut i = 0;
    while i < pre { s8[i] = 0x61; s16[i] = 0x61; i += 1; }
    i = 0;
    while i < n { if f == 1 || f == 3 { s16[pre + i] = sym_u16(i as u32); } else { s8[pre + i] = sym_u8(i as u32); } i += 1; }
    let len = pre + n;
    let mut a8 = [0u8; 160]; let mut b8 = [0u8; 160]; let mut a16 = [0u16; 64]; let mut b16 = [0u16; 64];
    i = 0; while i < 160 { a8[i] = sym_u8(300 + i as u32); b8[i] = sym_u8(500 + i as u32); i += 1; }
    i = 0; while i < 64 { a16[i] = sym_u16(300 + i as u32); b16[i] = sym_u16(500 + i as u32); i += 1; }
    match f {
        0 => { let x = mem::convert_utf8_to_utf16(&s8[..len], &mut a16[..len + 1]); let y = mem::convert_utf8_to_utf16(&s8[..len], &mut b16[..len + 1]);
               check(x == y, 1); let mut j = 0; while j < x { check(a16[j] == b16[j], 2); j += 1; } }
        1 => { let dl = sym_range(101, 0, 3 * len); let (r1, w1) = mem::convert_utf16_to_utf8_partial(&s16[..len], &mut a8[..dl]); let (r2, w2) = mem::convert_utf16_to_utf8_partial(&s16[..len], &mut b8[..dl]);
               check(r1 == r2 && w1 == w2, 1); let mut j = 0; while j < w1 { check(a8[j] == b8[j], 2); j += 1; } }
        2 => { let dl = sym_range(101, 0, 2 * len); let (r1, w1) = mem::convert_latin1_to_utf8_partial(&s8[..len], &mut a8[..dl]); let (r2, w2) = mem::convert_latin1_to_utf8_partial(&s8[..len], &mut b8[..dl]);
               check(r1 == r2 && w1 == w2, 1); let mut j = 0; while j < w1 { check(a8[j] == b8[j], 2); j += 1; } }
        3 => { let x = mem::convert_utf16_to_utf8(&s16[..len], &mut a8[..3 * len]); let y = mem::convert_utf16_to_utf8(&s16[..len], &mut b8[..3 * len]);
               check(x == y, 1); let mut j = 0; while j < x { check(a8[j] == b8[j], 2); j += 1; } }
        4 => { mem::convert_latin1_to_utf16(&s8[..len], &mut a16[..len]); mem::convert_latin1_to_utf16(&s8[..len], &mut b16[..len]);
               let mut j = 0; while j < len { check(a16[j] == b16[j], 2); j += 1; } }
        _ => { let mut j = 0; let mut ok = super::refs::utf8_latin1_up_to(&s8[..len]) == len; assume(ok);
               let x = mem::convert_utf8_to_latin1_lossy(&s8[..len], &mut a8[..len]); let y = mem::convert_utf8_to_latin1_lossy(&s8[..len], &mut b8[..len]);
               check(x == y, 1); while j < x { check(a8[j] == b8[j], 2); j += 1; } }
    }
    reach(END);
});
