// C09: replacement modes equal the documented manual error-recovery procedure.
// Twin converters are fed the same symbolic history (same buffers, large sinks): one through the replacing method,
// one through the *_without_replacement method plus the documented recovery (append U+FFFD for each Malformed /
// "&#" decimal ";" for each Unmappable, re-push the rest).  Outputs must be equal and, per pushed buffer, the
// had_errors / had_unmappables boolean must be true exactly if a substitution happened for that buffer.
use crate::*;
use super::se::*;
use super::encs::*;
use super::refdec::*;
use super::refenc::push_ncr;
use super::drv::*;
use super::edrv::*;
use super::c01::put_prefix;
use super::c03::neighbour;

/// manual recovery applied to a without-replacement log: every error event becomes the replacement text
fn recover(src: &Log, sink: usize, encoder: bool, out: &mut Log) {
    let mut i = 0;
    while i < src.n {
        let ev = src.ev[i];
        if ev.k == K_ERR {
            if encoder { push_ncr(ev.a, out); } else if sink == SK_U16 { out.scalar16(0xFFFD); } else { out.scalar8(0xFFFD); }
        } else { out.push(ev.k, ev.a, ev.b); }
        i += 1;
    }
    if src.overflow { out.overflow = true; }
}

// decoder side.  params: 0 encoding, 1/2 symbolic byte count, 3 sink, 5/6 first-byte shard, 7 prefix, 8 BOM mode,
//                        9 capacity of the replacing run (large, or small to vary its call pattern), 11 cuts (0..2)
harness!(se_h_c09_dec, c09_dec, {
    let e = param(0);
    let sink = param(3);
    let mut src = [0u8; 16];
    let mut len = put_prefix(param(7), &mut src);
    let n = sym_range(100, param(1), param(2));
    let mut i = 0;
    while i < n { src[len + i] = sym_u8(i as u32); i += 1; }
    if n > 0 { assume(src[len] >= param(5) as u8 && src[len] <= param(6) as u8); }
    len += n;
    let ncuts = param(11);
    let c1 = if ncuts >= 1 { sym_range(101, 0, len) } else { len };
    let c2 = if ncuts >= 2 { sym_range(102, c1, len) } else { len };
    let bounds = [0usize, c1, c2, len];
    let mut da = new_decoder(e, param(8));
    let mut db = new_decoder(e, param(8));
    let mut ra = Run::new(param(9));
    let mut rb = Run::new(56);
    let mut k = 0;
    while k < 3 {
        let buf = &src[bounds[k]..bounds[k + 1]];
        let last = k == 2;
        ra.had_errors = false; rb.had_errors = false;
        push_replace(&mut da, sink, buf, last, &mut ra);
        push_noreplace(&mut db, sink, buf, last, &mut rb);
        // the boolean is true precisely for buffers in which at least one substitution happened
        check(ra.had_errors == rb.had_errors, 20 + k as u32);
        if ra.had_errors { reach(20); }
        k += 1;
    }
    check(ra.finished && rb.finished, 1);
    let mut exp = Log::new();
    recover(&rb.log, sink, false, &mut exp);
    same_log(&ra.log, &exp, 10);
    check(da.encoding() == db.encoding(), 6);
    if ra.output_full_seen { reach(30); }
    reach(END);
});

// encoder side.  params: 0 encoding, 1 source form, 3 plane base, 4/5 window, 6/7 neighbours, 8 sink kind, 9 ASCII prefix max,
//                        11 cuts (0..2), 12 capacity of the replacing run
harness!(se_h_c09_enc, c09_enc, {
    let e = param(0);
    let form = param(1);
    let base = param(3) as u32;
    let s = sym_u16(0);
    assume(s as usize >= param(4) && s as usize <= param(5));
    let c = base + s as u32;
    assume(!(c >= 0xD800 && c <= 0xDFFF));
    assume(c <= 0x10FFFF);
    let mut t = Text::new();
    let p = if param(9) > 0 { sym_range(105, 0, param(9)) } else { 0 };
    let mut i = 0;
    while i < p { t.push(0x61 + i as u32); i += 1; }
    if param(6) != 0 { t.push(neighbour(param(6) - 1)); }
    t.push(c);
    if param(7) != 0 { t.push(neighbour(param(7) - 1)); }
    let nch = t.nchars;
    let ncuts = param(11);
    let c1 = if ncuts >= 1 { sym_range(101, 0, nch) } else { nch };
    let c2 = if ncuts >= 2 { sym_range(102, c1, nch) } else { nch };
    let bounds = [0usize, c1, c2, nch];
    let mut ea = enc(e).new_encoder();
    let mut eb = enc(e).new_encoder();
    let mut ra = Run::new(param(12));
    let mut rb = Run::new(60);
    let kind = param(8);
    let mut k = 0;
    while k < 3 {
        let from = bounds[k]; let to = bounds[k + 1];
        let last = k == 2;
        ra.had_errors = false; rb.had_errors = false;
        if form == SRC_UTF8 {
            let sl = t.s8(t.end8[from], t.end8[to]);
            epush8_replace(&mut ea, kind, sl, last, &mut ra);
            epush8_noreplace(&mut eb, kind, sl, last, &mut rb);
        } else {
            let sl = &t.b16[t.end16[from]..t.end16[to]];
            epush16_replace(&mut ea, kind, sl, last, &mut ra);
            epush16_noreplace(&mut eb, kind, sl, last, &mut rb);
        }
        check(ra.had_errors == rb.had_errors, 20 + k as u32);
        if ra.had_errors { reach(20); }
        k += 1;
    }
    check(ra.finished && rb.finished, 1);
    let mut exp = Log::new();
    recover(&rb.log, 0, true, &mut exp);
    same_log(&ra.log, &exp, 10);
    check(ea.has_pending_state() == eb.has_pending_state(), 6);
    if ra.output_full_seen { reach(30); }
    reach(END);
});
