// C12: encoder output is always valid target-encoding text that decodes to the input.
use crate::*;
use super::se::*;
use super::encs::*;
use super::refdec::*;
use super::refenc::*;
use super::gen_tables::*;
use super::drv::{Run, same_log};
use super::edrv::*;
use super::c03::neighbour;

/// the fixed set of characters the Standard's encoders fold on purpose: what c decodes back to
pub fn fold(e: usize, c: u32) -> u32 {
    match e {
        E_EUC_JP | E_SHIFT_JIS => { if c == 0xA5 { 0x5C } else if c == 0x203E { 0x7E } else if c == 0x2212 { 0xFF0D } else { c } }
        E_ISO_2022_JP => { if c == 0x2212 { 0xFF0D } else if c >= 0xFF61 && c <= 0xFF9F { REF_KATAKANA[(c - 0xFF61) as usize] as u32 } else { c } }
        E_GBK | E_GB18030 => {
            // the eighteen GB18030-2022 private-use code points are written as two-byte sequences that decode to
            // the corresponding non-private-use characters: look them up in the reference forward index
            let mut tmp = Log::new();
            let mut st = 0u8;
            let is_pua = (c >= 0xE78D && c <= 0xE796) || c == 0xE81E || c == 0xE826 || c == 0xE82B || c == 0xE82C || c == 0xE832 || c == 0xE843 || c == 0xE854 || c == 0xE864;
            if !is_pua { return c; }
            ref_encode_char(e, &mut st, c, &mut tmp);
            let lead = tmp.ev[0].a as usize; let trail = tmp.ev[1].a as usize;
            let p = (lead - 0x81) * 190 + (trail - if trail < 0x7F { 0x40 } else { 0x41 });
            REF_GB18030[p] as u32
        }
        _ => c,
    }
}

// text [x] c [y] as in C03; the encoder runs with replacement (so every character leaves a trace), cut at a
// symbolic character boundary, with symbolic per-call capacities; after every call the prefix hook of edrv.rs
// runs; at the end the complete output is decoded with the real decoder and compared with the folded input.
// params: 0 encoding, 1 source form, 3 plane base, 4/5 window, 6/7 neighbours, 8 sink kind, 12/13 capacity range
harness!(se_h_c12_back, c12_back, {
    let e = param(0);
    let eo = output_index(e);
    let form = param(1);
    let base = param(3) as u32;
    let s = sym_u16(0);
    assume(s as usize >= param(4) && s as usize <= param(5));
    let c = base + s as u32;
    assume(!(c >= 0xD800 && c <= 0xDFFF));
    assume(c <= 0x10FFFF);
    let mut t = Text::new();
    if param(6) != 0 { t.push(neighbour(param(6) - 1)); }
    t.push(c);
    if param(7) != 0 { t.push(neighbour(param(7) - 1)); }
    let nch = t.nchars;
    let mut en = enc(e).new_encoder();
    let mut run = Run::new(param(12));
    if param(13) > param(12) { run.sym_caps(param(12), param(13), 2); }
    run.prefix_check = eo + 1;
    let c1 = sym_range(101, 0, nch);
    if form == SRC_UTF8 {
        epush8_replace(&mut en, param(8), t.s8(0, t.end8[c1]), false, &mut run);
        epush8_replace(&mut en, param(8), t.s8(t.end8[c1], t.n8), true, &mut run);
    } else {
        epush16_replace(&mut en, param(8), &t.b16[..t.end16[c1]], false, &mut run);
        epush16_replace(&mut en, param(8), &t.b16[t.end16[c1]..t.n16], true, &mut run);
    }
    check(run.finished, 1);
    check(!en.has_pending_state(), 4);
    // expected scalars: folded input, unmappable characters as the digits of their numeric character reference
    let mut exp = Log::new();
    let mut k = 0;
    while k < nch {
        let ch = t.cp[k];
        let mut tmp = Log::new(); let mut st = 0u8;
        // mappability per the reference encoder, in the state-free sense (ISO-2022-JP: decide in the JIS0208 state)
        let mut st2 = if eo == E_ISO_2022_JP { ST_JIS0208 } else { 0 };
        ref_encode_char(eo, &mut st2, ch, &mut tmp);
        let mut unm = false; let mut rep = 0u32;
        let mut i = 0; while i < tmp.n { if tmp.ev[i].k == K_ERR { unm = true; rep = tmp.ev[i].a; } i += 1; }
        if eo == E_ISO_2022_JP && (ch == 0x0E || ch == 0x0F || ch == 0x1B) { unm = true; rep = 0xFFFD; }
        if unm { let mut ncr = Log::new(); push_ncr(rep, &mut ncr); let mut j = 0; while j < ncr.n { exp.scalar16(ncr.ev[j].a); j += 1; } }
        else { exp.scalar16(fold(eo, ch)); }
        k += 1;
    }
    // decode the complete output with the real decoder
    let mut buf = [0u8; 128];
    let n = log_bytes(&run.log, &mut buf);
    let mut dec = enc(eo).new_decoder_without_bom_handling();
    let mut got = Run::new(60);
    super::drv::push_noreplace(&mut dec, super::drv::SK_U16, &buf[..n], true, &mut got);
    check(!got.had_errors, 5);
    same_log(&got.log, &exp, 10);
    if run.output_full_seen { reach(30); }
    if run.had_errors { reach(20); } else { reach(21); }
    reach(END);
});
