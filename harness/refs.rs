// Small hand-written reference predicates (UTF-8 / UTF-16 well-formedness, Latin1 ranges).
// They are deliberately naive: one unit at a time, no tables, no strides.

/// length of the longest prefix of `b` that is well-formed UTF-8 (Unicode Table 3-7)
pub fn utf8_valid_up_to(b: &[u8]) -> usize {
    let mut i = 0usize;
    while i < b.len() {
        let n = utf8_seq_len(&b[i..]);
        if n == 0 { return i; }
        i += n;
    }
    i
}

/// length (1..=4) of the well-formed UTF-8 sequence at the start of `b`, or 0 if there is none
pub fn utf8_seq_len(b: &[u8]) -> usize {
    if b.len() == 0 { return 0; }
    let c = b[0];
    if c < 0x80 { return 1; }
    if c < 0xC2 { return 0; }
    if c < 0xE0 {
        if b.len() < 2 { return 0; }
        if b[1] < 0x80 || b[1] > 0xBF { return 0; }
        return 2;
    }
    if c < 0xF0 {
        if b.len() < 3 { return 0; }
        let lo: u8 = if c == 0xE0 { 0xA0 } else { 0x80 };
        let hi: u8 = if c == 0xED { 0x9F } else { 0xBF };
        if b[1] < lo || b[1] > hi { return 0; }
        if b[2] < 0x80 || b[2] > 0xBF { return 0; }
        return 3;
    }
    if c < 0xF5 {
        if b.len() < 4 { return 0; }
        let lo: u8 = if c == 0xF0 { 0x90 } else { 0x80 };
        let hi: u8 = if c == 0xF4 { 0x8F } else { 0xBF };
        if b[1] < lo || b[1] > hi { return 0; }
        if b[2] < 0x80 || b[2] > 0xBF { return 0; }
        if b[3] < 0x80 || b[3] > 0xBF { return 0; }
        return 4;
    }
    0
}

/// length of the maximal ill-formed subpart starting at b[0] (b[0] does not start a well-formed
/// sequence): the number of bytes one U+FFFD stands for ("maximal subpart" practice, WHATWG UTF-8 decoder)
pub fn utf8_bad_len(b: &[u8]) -> usize {
    let c = b[0];
    if c < 0xC2 || c > 0xF4 { return 1; }
    if c < 0xE0 { return 1; }
    if c < 0xF0 {
        let lo: u8 = if c == 0xE0 { 0xA0 } else { 0x80 };
        let hi: u8 = if c == 0xED { 0x9F } else { 0xBF };
        if b.len() < 2 || b[1] < lo || b[1] > hi { return 1; }
        return 2;
    }
    let lo: u8 = if c == 0xF0 { 0x90 } else { 0x80 };
    let hi: u8 = if c == 0xF4 { 0x8F } else { 0xBF };
    if b.len() < 2 || b[1] < lo || b[1] > hi { return 1; }
    if b.len() < 3 || b[2] < 0x80 || b[2] > 0xBF { return 2; }
    3
}

/// scalar value of the well-formed sequence of length n at the start of b
pub fn utf8_scalar(b: &[u8], n: usize) -> u32 {
    match n {
        1 => b[0] as u32,
        2 => ((b[0] as u32 & 0x1F) << 6) | (b[1] as u32 & 0x3F),
        3 => ((b[0] as u32 & 0x0F) << 12) | ((b[1] as u32 & 0x3F) << 6) | (b[2] as u32 & 0x3F),
        _ => ((b[0] as u32 & 0x07) << 18) | ((b[1] as u32 & 0x3F) << 12) | ((b[2] as u32 & 0x3F) << 6) | (b[3] as u32 & 0x3F),
    }
}

/// write scalar c as UTF-8 into dst, return length
pub fn put_utf8(c: u32, dst: &mut [u8]) -> usize {
    if c < 0x80 { dst[0] = c as u8; 1 }
    else if c < 0x800 { dst[0] = 0xC0 | (c >> 6) as u8; dst[1] = 0x80 | (c & 0x3F) as u8; 2 }
    else if c < 0x10000 { dst[0] = 0xE0 | (c >> 12) as u8; dst[1] = 0x80 | ((c >> 6) & 0x3F) as u8; dst[2] = 0x80 | (c & 0x3F) as u8; 3 }
    else { dst[0] = 0xF0 | (c >> 18) as u8; dst[1] = 0x80 | ((c >> 12) & 0x3F) as u8; dst[2] = 0x80 | ((c >> 6) & 0x3F) as u8; dst[3] = 0x80 | (c & 0x3F) as u8; 4 }
}

pub fn put_utf16(c: u32, dst: &mut [u16]) -> usize {
    if c < 0x10000 { dst[0] = c as u16; 1 }
    else { let v = c - 0x10000; dst[0] = 0xD800 | (v >> 10) as u16; dst[1] = 0xDC00 | (v & 0x3FF) as u16; 2 }
}

pub fn is_high(u: u16) -> bool { u >= 0xD800 && u <= 0xDBFF }
pub fn is_low(u: u16) -> bool { u >= 0xDC00 && u <= 0xDFFF }

/// index of the first unpaired surrogate, or len
pub fn utf16_valid_up_to(b: &[u16]) -> usize {
    let mut i = 0usize;
    while i < b.len() {
        let u = b[i];
        if is_low(u) { return i; }
        if is_high(u) {
            if i + 1 < b.len() && is_low(b[i + 1]) { i += 2; continue; }
            return i;
        }
        i += 1;
    }
    i
}

pub fn ascii_up_to(b: &[u8]) -> usize {
    let mut i = 0usize;
    while i < b.len() { if b[i] >= 0x80 { return i; } i += 1; }
    i
}

pub fn iso2022jp_ascii_up_to(b: &[u8]) -> usize {
    let mut i = 0usize;
    while i < b.len() { let c = b[i]; if c >= 0x80 || c == 0x1B || c == 0x0E || c == 0x0F { return i; } i += 1; }
    i
}

pub fn basic_latin_up_to(b: &[u16]) -> usize {
    let mut i = 0usize;
    while i < b.len() { if b[i] >= 0x80 { return i; } i += 1; }
    i
}

/// index of the first byte that starts an invalid or a non-Latin1 (> U+00FF) sequence, or len
pub fn utf8_latin1_up_to(b: &[u8]) -> usize {
    let mut i = 0usize;
    while i < b.len() {
        let n = utf8_seq_len(&b[i..]);
        if n == 0 || n > 2 { return i; }
        if n == 2 && b[i] > 0xC3 { return i; }
        i += n;
    }
    i
}
