// C08: conversion loops always make progress and terminate.
// The documented caller loop is run at the documented minimum output capacity (and minimum+1): every call that
// does not end the stream must consume input or produce output (asserted inside the drivers, id 104), and the
// number of calls is bounded by 4*(input units)+16 (asserted inside the drivers, id 103, so that a hang shows
// up as a violated assertion on a finite path and not as a timeout).
use crate::*;
use super::se::*;
use super::encs::*;
use super::refdec::*;
use super::drv::*;
use super::edrv::*;
use super::c01::put_prefix;
use super::c03::neighbour;

// decoder side.  params: 0 encoding, 1/2 symbolic byte count, 3 sink, 4 replacement, 5/6 first-byte shard, 7 prefix,
//                        8 BOM mode, 9 capacity, 11 number of cuts (0..2), 12 empty final call allowed, 13 flags, 14 &mut str pre-fill phase + 1
harness!(se_h_c08_dec, c08_dec, {
    let e = param(0);
    let sink = param(3);
    let repl = param(4) != 0;
    let mut src = [0u8; 16];
    let mut len = put_prefix(param(7), &mut src);
    let n = sym_range(100, param(1), param(2));
    let mut i = 0;
    while i < n { src[len + i] = sym_u8(i as u32); i += 1; }
    if n > 0 { assume(src[len] >= param(5) as u8 && src[len] <= param(6) as u8); }
    len += n;
    let ncuts = param(11);
    let c1 = if ncuts >= 1 { sym_range(101, 0, len) } else { len };
    let c2 = if ncuts >= 2 { sym_range(102, c1, len) } else { len };
    let empty_last = if param(12) != 0 { sym_range(103, 0, 1) } else { 0 };
    let last_in_data = empty_last == 0;
    let mut d = new_decoder(e, param(8));
    let mut run = Run::new(param(9));
    run.max_calls = 4 * len + 16;
    // flags (C05 / C06 reuse this harness): 1 = written units well-formed per call, 2 = String sink starts with content,
    // 4 = destinations BELOW the documented minimum (symbolic 0..=capacity, one value for the whole run): a call may stall
    run.wf_check = param(13) & 1 != 0;
    run.keep_prefix = param(13) & 2 != 0;
    run.str_fill = param(14);
    if param(13) & 4 != 0 { run.stall_ok = true; run.sym_caps(0, param(9), 1); }
    if ncuts == 0 { push(&mut d, sink, repl, &src[..len], last_in_data, &mut run); }
    else {
        push(&mut d, sink, repl, &src[..c1], false, &mut run);
        if ncuts >= 2 {
            if !run.stalled { push(&mut d, sink, repl, &src[c1..c2], false, &mut run); }
            if !run.stalled { push(&mut d, sink, repl, &src[c2..len], last_in_data, &mut run); }
        } else if !run.stalled { push(&mut d, sink, repl, &src[c1..len], last_in_data, &mut run); }
    }
    if !last_in_data && !run.stalled { push(&mut d, sink, repl, &src[len..len], true, &mut run); }
    if run.stalled { reach(37); reach(END); return; }
    check(run.finished, 1);
    check(run.total_read == len, 3);
    check(run.calls <= 4 * len + 16, 9);
    if run.output_full_seen { reach(30); }
    if run.calls > len + 2 { reach(36); }     // more calls than input units: the minimum-capacity regime really bites
    reach(END);
});

// encoder side.  params: 0 encoding, 1 source form, 2 replacement, 3 plane base, 4/5 window, 6/7 neighbours, 8 sink kind,
//                        9 max ASCII prefix, 11 number of cuts (0..2), 12 capacity, 15 empty final call allowed
harness!(se_h_c08_enc, c08_enc, {
    let e = param(0);
    let form = param(1);
    let repl = param(2) != 0;
    let base = param(3) as u32;
    let s = sym_u16(0);
    assume(s as usize >= param(4) && s as usize <= param(5));
    let c = base + s as u32;
    assume(!(c >= 0xD800 && c <= 0xDFFF));
    assume(c <= 0x10FFFF);
    let mut t = Text::new();
    let p = if param(9) > 0 { sym_range(105, 0, param(9)) } else { 0 };
    let mut i = 0;
    while i < p { t.push(0x61 + i as u32); i += 1; }
    if param(6) != 0 { t.push(neighbour(param(6) - 1)); }
    t.push(c);
    if param(7) != 0 { t.push(neighbour(param(7) - 1)); }
    let nch = t.nchars;
    let units = if form == SRC_UTF8 { t.n8 } else { t.n16 };
    let ncuts = param(11);
    let c1 = if ncuts >= 1 { sym_range(101, 0, nch) } else { nch };
    let c2 = if ncuts >= 2 { sym_range(102, c1, nch) } else { nch };
    let empty_last = if param(15) != 0 { sym_range(103, 0, 1) } else { 0 };
    let last_in_data = empty_last == 0;
    let mut en = enc(e).new_encoder();
    let mut run = Run::new(param(12));
    run.max_calls = 4 * units + 16;
    run.keep_prefix = param(13) & 2 != 0;
    if param(13) & 4 != 0 { run.stall_ok = true; run.sym_caps(0, param(12), 1); }
    let kind = param(8);
    let bounds = [0usize, c1, c2, nch];
    let mut k = 0;
    while k < 3 && !run.stalled {
        let from = bounds[k]; let to = bounds[k + 1];
        let last = last_in_data && k == 2;
        if form == SRC_UTF8 {
            let sl = t.s8(t.end8[from], t.end8[to]);
            if repl { epush8_replace(&mut en, kind, sl, last, &mut run); } else { epush8_noreplace(&mut en, kind, sl, last, &mut run); }
        } else {
            let sl = &t.b16[t.end16[from]..t.end16[to]];
            if repl { epush16_replace(&mut en, kind, sl, last, &mut run); } else { epush16_noreplace(&mut en, kind, sl, last, &mut run); }
        }
        k += 1;
    }
    if !last_in_data && !run.stalled {
        if form == SRC_UTF8 { if repl { epush8_replace(&mut en, kind, "", true, &mut run); } else { epush8_noreplace(&mut en, kind, "", true, &mut run); } }
        else if repl { epush16_replace(&mut en, kind, &[], true, &mut run); } else { epush16_noreplace(&mut en, kind, &[], true, &mut run); }
    }
    if run.stalled { reach(37); reach(END); return; }
    check(run.finished, 1);
    check(run.total_read == units, 3);
    check(run.calls <= 4 * units + 16, 9);
    if run.output_full_seen { reach(30); }
    if run.calls > nch + 3 { reach(36); }
    reach(END);
});

// Long ASCII runs through the streaming API (the 16-unit acceleration strides of the ASCII fast paths) against output limits.
// decoder side: stream = k ASCII bytes + n symbolic bytes + s ASCII bytes, one buffer, last = true; the capacity is a symbolic value in cmin..=cmax
// (param 11 = number of calls with an own value, default one value for all calls), so that the end of the destination falls at every offset of a stride.
// The complete output is compared with the reference decoder of the Standard (as C01), on top of the driver's per-call contract.
// params: 0 encoding, 1 k, 2 max n, 3 sink, 4 replacement, 5/6 range of the first symbolic byte, 7 s, 9/10 capacity range,
//         13 flags (as se_h_c08_dec), 14 != 0: destination pre-filled with fresh symbolic units (tag)
harness!(se_h_c08_long, c08_long, {
    let e = param(0);
    let sink = param(3);
    let repl = param(4) != 0;
    let k = param(1);
    let mut src = [0u8; 48];
    let mut i = 0;
    while i < k { src[i] = 0x61 + (i % 20) as u8; i += 1; }
    let n = sym_range(100, 0, param(2));
    i = 0;
    while i < n { src[k + i] = sym_u8(i as u32); i += 1; }
    if n > 0 { assume(src[k] >= param(5) as u8 && src[k] <= param(6) as u8); }
    let s = param(7);
    i = 0;
    while i < s { src[k + n + i] = 0x41 + (i % 20) as u8; i += 1; }
    let len = k + n + s;
    let mut d = new_decoder(e, BOM_OFF);
    let mut run = Run::new(param(9));
    run.sym_caps(param(9), param(10), if param(11) == 0 { 1 } else { param(11) });
    run.max_calls = 4 * len + 16;
    run.wf_check = param(13) & 1 != 0;
    run.keep_prefix = param(13) & 2 != 0;
    run.sym_fill = param(14) as u32;
    push(&mut d, sink, repl, &src[..len], true, &mut run);
    check(run.finished, 1);
    check(run.total_read == len, 3);
    let mut exp = Log::new();
    let had = ref_log(e, &src[..len], sink, repl, &mut exp);
    same_log(&run.log, &exp, 10);
    if repl { check(run.had_errors == had, 2); }
    if run.output_full_seen { reach(30); }
    if run.calls > 2 { reach(36); }
    reach(END);
});

// encoder side: text = k ASCII + one symbolic character (plane base + window) + s ASCII, from UTF-8 or UTF-16, same capacity regime;
// output compared with the reference encoder (as C03).
// params: 0 encoding, 1 source form, 2 replacement, 3 plane base, 4/5 window, 6 k, 7 s, 8 sink kind, 9/10 capacity range, 13 flags
harness!(se_h_c08_long_enc, c08_long_enc, {
    let e = param(0);
    let form = param(1);
    let repl = param(2) != 0;
    let u = sym_u16(0);
    assume(u as usize >= param(4) && u as usize <= param(5));
    let c = param(3) as u32 + u as u32;
    assume(!(c >= 0xD800 && c <= 0xDFFF));
    assume(c <= 0x10FFFF);
    let k = param(6);
    let s = param(7);
    let mut b8 = [0u8; 48]; let mut b16 = [0u16; 48];
    let mut cps = [0u32; 44]; let mut end8 = [0usize; 45]; let mut end16 = [0usize; 45];
    let mut n8 = 0usize; let mut n16 = 0usize; let mut nc = 0usize;
    let mut i = 0;
    while i < k + 1 + s {
        let ch = if i < k { 0x61 + (i % 20) as u32 } else if i == k { c } else { 0x41 + ((i - k) % 20) as u32 };
        n8 += super::refs::put_utf8(ch, &mut b8[n8..]);
        n16 += super::refs::put_utf16(ch, &mut b16[n16..]);
        cps[nc] = ch; nc += 1; end8[nc] = n8; end16[nc] = n16;
        i += 1;
    }
    let units = if form == SRC_UTF8 { n8 } else { n16 };
    let mut en = enc(e).new_encoder();
    let mut run = Run::new(param(9));
    run.sym_caps(param(9), param(10), if param(11) == 0 { 1 } else { param(11) });
    run.max_calls = 4 * units + 16;
    run.keep_prefix = param(13) & 2 != 0;
    let kind = param(8);
    if form == SRC_UTF8 {
        let sl = unsafe { core::str::from_utf8_unchecked(&b8[..n8]) };
        if repl { epush8_replace(&mut en, kind, sl, true, &mut run); } else { epush8_noreplace(&mut en, kind, sl, true, &mut run); }
    } else if repl { epush16_replace(&mut en, kind, &b16[..n16], true, &mut run); } else { epush16_noreplace(&mut en, kind, &b16[..n16], true, &mut run); }
    check(run.finished, 1);
    check(run.total_read == units, 3);
    let mut exp = Log::new();
    let ends = if form == SRC_UTF8 { &end8 } else { &end16 };
    let had = ref_elog(e, &cps[..nc], &ends[..nc + 1], repl, &mut exp);
    same_log(&run.log, &exp, 10);
    if repl { check(run.had_errors == had, 2); }
    if run.output_full_seen { reach(30); }
    if run.calls > 2 { reach(36); }
    reach(END);
});
