// C08: conversion loops always make progress and terminate.
// The documented caller loop is run at the documented minimum output capacity (and minimum+1): every call that
// does not end the stream must consume input or produce output (asserted inside the drivers, id 104), and the
// number of calls is bounded by 4*(input units)+16 (asserted inside the drivers, id 103, so that a hang shows
// up as a violated assertion on a finite path and not as a timeout).
use crate::*;
use super::se::*;
use super::encs::*;
use super::refdec::*;
use super::drv::*;
use super::edrv::*;
use super::c01::put_prefix;
use super::c03::neighbour;

// decoder side.  params: 0 encoding, 1/2 symbolic byte count, 3 sink, 4 replacement, 5/6 first-byte shard, 7 prefix,
//                        8 BOM mode, 9 capacity, 11 number of cuts (0..2), 12 empty final call allowed, 13 flags, 14 &mut str pre-fill phase + 1
harness!(se_h_c08_dec, c08_dec, {
    let e = param(0);
    let sink = param(3);
    let repl = param(4) != 0;
    let mut src = [0u8; 16];
    let mut len = put_prefix(param(7), &mut src);
    let n = sym_range(100, param(1), param(2));
    let mut i = 0;
    while i < n { src[len + i] = sym_u8(i as u32); i += 1; }
    if n > 0 { assume(src[len] >= param(5) as u8 && src[len] <= param(6) as u8); }
    len += n;
    let ncuts = param(11);
    let c1 = if ncuts >= 1 { sym_range(101, 0, len) } else { len };
    let c2 = if ncuts >= 2 { sym_range(102, c1, len) } else { len };
    let empty_last = if param(12) != 0 { sym_range(103, 0, 1) } else { 0 };
    let last_in_data = empty_last == 0;
    let mut d = new_decoder(e, param(8));
    let mut run = Run::new(param(9));
    run.max_calls = 4 * len + 16;
    // flags (C05 / C06 reuse this harness): 1 = written units well-formed per call, 2 = String sink starts with content,
    // 4 = destinations BELOW the documented minimum (symbolic 0..=capacity, one value for the whole run): a call may stall
    run.wf_check = param(13) & 1 != 0;
    run.keep_prefix = param(13) & 2 != 0;
    run.str_fill = param(14);
    if param(13) & 4 != 0 { run.stall_ok = true; run.sym_caps(0, param(9), 1); }
    if ncuts == 0 { push(&mut d, sink, repl, &src[..len], last_in_data, &mut run); }
    else {
        push(&mut d, sink, repl, &src[..c1], false, &mut run);
        if ncuts >= 2 {
            if !run.stalled { push(&mut d, sink, repl, &src[c1..c2], false, &mut run); }
            if !run.stalled { push(&mut d, sink, repl, &src[c2..len], last_in_data, &mut run); }
        } else if !run.stalled { push(&mut d, sink, repl, &src[c1..len], last_in_data, &mut run); }
    }
    if !last_in_data && !run.stalled { push(&mut d, sink, repl, &src[len..len], true, &mut run); }
    if run.stalled { reach(37); reach(END); return; }
    check(run.finished, 1);
    check(run.total_read == len, 3);
    check(run.calls <= 4 * len + 16, 9);
    if run.output_full_seen { reach(30); }
    if run.calls > len + 2 { reach(36); }     // more calls than input units: the minimum-capacity regime really bites
    reach(END);
});

// encoder side.  params: 0 encoding, 1 source form, 2 replacement, 3 plane base, 4/5 window, 6/7 neighbours, 8 sink kind,
//                        9 max ASCII prefix, 11 number of cuts (0..2), 12 capacity, 15 empty final call allowed
harness!(se_h_c08_enc, c08_enc, {
    let e = param(0);
    let form = param(1);
    let repl = param(2) != 0;
    let base = param(3) as u32;
    let s = sym_u16(0);
    assume(s as usize >= param(4) && s as usize <= param(5));
    let c = base + s as u32;
    assume(!(c >= 0xD800 && c <= 0xDFFF));
    assume(c <= 0x10FFFF);
    let mut t = Text::new();
    let p = if param(9) > 0 { sym_range(105, 0, param(9)) } else { 0 };
    let mut i = 0;
    while i < p { t.push(0x61 + i as u32); i += 1; }
    if param(6) != 0 { t.push(neighbour(param(6) - 1)); }
    t.push(c);
    if param(7) != 0 { t.push(neighbour(param(7) - 1)); }
    let nch = t.nchars;
    let units = if form == SRC_UTF8 { t.n8 } else { t.n16 };
    let ncuts = param(11);
    let c1 = if ncuts >= 1 { sym_range(101, 0, nch) } else { nch };
    let c2 = if ncuts >= 2 { sym_range(102, c1, nch) } else { nch };
    let empty_last = if param(15) != 0 { sym_range(103, 0, 1) } else { 0 };
    let last_in_data = empty_last == 0;
    let mut en = enc(e).new_encoder();
    let mut run = Run::new(param(12));
    run.max_calls = 4 * units + 16;
    run.keep_prefix = param(13) & 2 != 0;
    if param(13) & 4 != 0 { run.stall_ok = true; run.sym_caps(0, param(12), 1); }
    let kind = param(8);
    let bounds = [0usize, c1, c2, nch];
    let mut k = 0;
    while k < 3 && !run.stalled {
        let from = bounds[k]; let to = bounds[k + 1];
        let last = last_in_data && k == 2;
        if form == SRC_UTF8 {
            let sl = t.s8(t.end8[from], t.end8[to]);
            if repl { epush8_replace(&mut en, kind, sl, last, &mut run); } else { epush8_noreplace(&mut en, kind, sl, last, &mut run); }
        } else {
            let sl = &t.b16[t.end16[from]..t.end16[to]];
            if repl { epush16_replace(&mut en, kind, sl, last, &mut run); } else { epush16_noreplace(&mut en, kind, sl, last, &mut run); }
        }
        k += 1;
    }
    if !last_in_data && !run.stalled {
        if form == SRC_UTF8 { if repl { epush8_replace(&mut en, kind, "", true, &mut run); } else { epush8_noreplace(&mut en, kind, "", true, &mut run); } }
        else if repl { epush16_replace(&mut en, kind, &[], true, &mut run); } else { epush16_noreplace(&mut en, kind, &[], true, &mut run); }
    }
    if run.stalled { reach(37); reach(END); return; }
    check(run.finished, 1);
    check(run.total_read == units, 3);
    check(run.calls <= 4 * units + 16, 9);
    if run.output_full_seen { reach(30); }
    if run.calls > nch + 3 { reach(36); }
    reach(END);
});
