// Documented caller loops around the real Encoder, shared by the encoder-side properties
// (C03, C04, C07, C08, C09, C12).  Output bytes and Unmappable reports go to a Log.
use crate::*;
use super::se::*;
use super::encs::*;
use super::refdec::*;
use super::refenc::*;
use super::drv::{Run, same_log};

pub const SRC_UTF8: usize = 0;
pub const SRC_UTF16: usize = 1;
pub const EK_SLICE: usize = 0;
pub const EK_VEC: usize = 1;
pub const EBUF: usize = 64;

fn guard(d: &[u8], cap: usize) { check(d[cap] == 0 && d[cap + 1] == 0 && d[cap + 2] == 0 && d[cap + 3] == 0, 112); }

/// a short text in both source forms, with character boundaries
pub struct Text {
    pub b8: [u8; 40], pub n8: usize,
    pub b16: [u16; 20], pub n16: usize,
    pub cp: [u32; 10], pub nchars: usize,
    pub end8: [usize; 11], pub end16: [usize; 11],     // offset just after character k (end[0] = 0)
}

impl Text {
    pub fn new() -> Text { Text { b8: [0; 40], n8: 0, b16: [0; 20], n16: 0, cp: [0; 10], nchars: 0, end8: [0; 11], end16: [0; 11] } }
    /// append scalar value c (must be a valid scalar)
    pub fn push(&mut self, c: u32) {
        self.n8 += super::refs::put_utf8(c, &mut self.b8[self.n8..]);
        self.n16 += super::refs::put_utf16(c, &mut self.b16[self.n16..]);
        self.cp[self.nchars] = c;
        self.nchars += 1;
        self.end8[self.nchars] = self.n8;
        self.end16[self.nchars] = self.n16;
    }
    pub fn s8(&self, from: usize, to: usize) -> &str { unsafe { core::str::from_utf8_unchecked(&self.b8[from..to]) } }
}

/// Push one input buffer (UTF-8 text) through the encoder with the documented caller loop, without replacement.
#[inline(never)]
pub fn epush8_noreplace(enc_: &mut Encoder, kind: usize, src: &str, last: bool, run: &mut Run) {
    let mut pos = 0usize;
    loop {
        let cap = run.cap();
        let rest = &src[pos..];
        let mut d = [0u8; EBUF + 4];
        super::drv::prefill8(run, &mut d, cap);
        let (res, read, written) = if kind == EK_SLICE {
            enc_.encode_from_utf8_without_replacement(rest, &mut d[..cap], last)
        } else {
            let k = if run.keep_prefix { 2 } else { 0 };
            let mut v: alloc::vec::Vec<u8> = alloc::vec::Vec::with_capacity(cap + k);
            if run.keep_prefix { v.push(0xC3); v.push(0xA4); }
            let (r, rd) = enc_.encode_from_utf8_to_vec_without_replacement(rest, &mut v, last);
            check(v.capacity() == cap + k, 111);
            if run.keep_prefix { check(v[0] == 0xC3 && v[1] == 0xA4, 115); }
            let w = v.len() - k;
            let mut i = 0; while i < cap { d[i] = 0; i += 1; }
            i = 0; while i < w { d[i] = v[k + i]; i += 1; }
            (r, rd, w)
        };
        guard(&d, cap);
        run.calls += 1;
        check(read <= rest.len(), 100);
        check(written <= cap, 101);
        check(rest.is_char_boundary(read), 109);
        pos += read; run.total_read += read;
        let mut i = 0; while i < written { run.log.unit(d[i] as u32); i += 1; }
        after_call(run, enc_);
        match res {
            EncoderResult::InputEmpty => { check(pos == src.len(), 102); if last { run.finished = true; } return; }
            EncoderResult::OutputFull => { run.output_full_seen = true; if run.stall_ok && read == 0 && written == 0 { run.stalled = true; return; } if run.min_progress { check(read > 0 || written > 0, 104); } }
            EncoderResult::Unmappable(c) => { run.log.push(K_ERR, c as u32, run.total_read as u32); run.had_errors = true; }
        }
        check(run.calls < run.max_calls, 103);
    }
}

#[inline(never)]
pub fn epush16_noreplace(enc_: &mut Encoder, kind: usize, src: &[u16], last: bool, run: &mut Run) {
    let mut pos = 0usize;
    loop {
        let cap = run.cap();
        let rest = &src[pos..];
        let mut d = [0u8; EBUF + 4];
        super::drv::prefill8(run, &mut d, cap);
        let (res, read, written) = enc_.encode_from_utf16_without_replacement(rest, &mut d[..cap], last);
        guard(&d, cap);
        run.calls += 1;
        check(read <= rest.len(), 100);
        check(written <= cap, 101);
        pos += read; run.total_read += read;
        let mut i = 0; while i < written { run.log.unit(d[i] as u32); i += 1; }
        after_call(run, enc_);
        match res {
            EncoderResult::InputEmpty => { check(pos == src.len(), 102); if last { run.finished = true; } return; }
            EncoderResult::OutputFull => { run.output_full_seen = true; if run.stall_ok && read == 0 && written == 0 { run.stalled = true; return; } if run.min_progress { check(read > 0 || written > 0, 104); } }
            EncoderResult::Unmappable(c) => { run.log.push(K_ERR, c as u32, run.total_read as u32); run.had_errors = true; }
        }
        check(run.calls < run.max_calls, 103);
    }
}

#[inline(never)]
pub fn epush8_replace(enc_: &mut Encoder, kind: usize, src: &str, last: bool, run: &mut Run) {
    let mut pos = 0usize;
    loop {
        let cap = run.cap();
        let rest = &src[pos..];
        let mut d = [0u8; EBUF + 4];
        super::drv::prefill8(run, &mut d, cap);
        let (res, read, written, had) = if kind == EK_SLICE {
            enc_.encode_from_utf8(rest, &mut d[..cap], last)
        } else {
            let k = if run.keep_prefix { 2 } else { 0 };
            let mut v: alloc::vec::Vec<u8> = alloc::vec::Vec::with_capacity(cap + k);
            if run.keep_prefix { v.push(0xC3); v.push(0xA4); }
            let (r, rd, h) = enc_.encode_from_utf8_to_vec(rest, &mut v, last);
            check(v.capacity() == cap + k, 111);
            if run.keep_prefix { check(v[0] == 0xC3 && v[1] == 0xA4, 115); }
            let w = v.len() - k;
            let mut i = 0; while i < cap { d[i] = 0; i += 1; }
            i = 0; while i < w { d[i] = v[k + i]; i += 1; }
            (r, rd, w, h)
        };
        guard(&d, cap);
        run.calls += 1;
        check(read <= rest.len(), 100);
        check(written <= cap, 101);
        check(rest.is_char_boundary(read), 109);
        pos += read; run.total_read += read;
        let mut i = 0; while i < written { run.log.unit(d[i] as u32); i += 1; }
        if had { run.had_errors = true; }
        after_call(run, enc_);
        match res {
            CoderResult::InputEmpty => { check(pos == src.len(), 102); if last { run.finished = true; } return; }
            CoderResult::OutputFull => { run.output_full_seen = true; if run.stall_ok && read == 0 && written == 0 { run.stalled = true; return; } if run.min_progress { check(read > 0 || written > 0, 104); } }
        }
        check(run.calls < run.max_calls, 103);
    }
}

#[inline(never)]
pub fn epush16_replace(enc_: &mut Encoder, kind: usize, src: &[u16], last: bool, run: &mut Run) {
    let mut pos = 0usize;
    loop {
        let cap = run.cap();
        let rest = &src[pos..];
        let mut d = [0u8; EBUF + 4];
        super::drv::prefill8(run, &mut d, cap);
        let (res, read, written, had) = enc_.encode_from_utf16(rest, &mut d[..cap], last);
        guard(&d, cap);
        run.calls += 1;
        check(read <= rest.len(), 100);
        check(written <= cap, 101);
        pos += read; run.total_read += read;
        let mut i = 0; while i < written { run.log.unit(d[i] as u32); i += 1; }
        if had { run.had_errors = true; }
        after_call(run, enc_);
        match res {
            CoderResult::InputEmpty => { check(pos == src.len(), 102); if last { run.finished = true; } return; }
            CoderResult::OutputFull => { run.output_full_seen = true; if run.stall_ok && read == 0 && written == 0 { run.stalled = true; return; } if run.min_progress { check(read > 0 || written > 0, 104); } }
        }
        check(run.calls < run.max_calls, 103);
    }
}

/// expected log for a sequence of scalars (complete stream): bytes + unmappable reports (without replacement)
/// or bytes with NCRs (with replacement).  pos8/pos16 give the source offset just after each character.
#[inline(never)]
pub fn ref_elog(e: usize, cps: &[u32], ends: &[usize], repl: bool, out: &mut Log) -> bool {
    let eo = output_index(e);
    let mut st = ST_ASCII;
    let mut had = false;
    let mut k = 0;
    while k < cps.len() {
        let mut tmp = Log::new();
        ref_encode_char(eo, &mut st, cps[k], &mut tmp);
        let mut i = 0;
        while i < tmp.n {
            let ev = tmp.ev[i];
            if ev.k == K_ERR {
                had = true;
                if repl { push_ncr(ev.a, out); } else { out.push(K_ERR, ev.a, ends[k + 1] as u32); }
            } else { out.unit(ev.a); }
            i += 1;
        }
        k += 1;
    }
    ref_encode_eof(eo, &mut st, out);
    had
}

/// output bytes of a log (Unmappable reports skipped) into buf; returns the length
pub fn log_bytes(log: &Log, buf: &mut [u8]) -> usize {
    let mut n = 0; let mut i = 0;
    while i < log.n { if log.ev[i].k == K_UNIT { buf[n] = log.ev[i].a as u8; n += 1; } i += 1; }
    n
}

/// C12 hook, called after every encode call when run.prefix_check != 0: the bytes produced so far, taken from
/// the start of the stream, must be accepted without error by the real decoder of the same encoding (decoded as
/// a complete stream, so that a character split across calls shows up as a dangling lead), and
/// has_pending_state() must say exactly whether an ISO-2022-JP stream is currently outside the ASCII state.
#[inline(never)]
pub fn after_call(run: &Run, enc_: &Encoder) {
    if run.prefix_check == 0 { return; }
    let e = run.prefix_check - 1;
    let mut buf = [0u8; 128];
    let n = log_bytes(&run.log, &mut buf);
    let mut dec = enc(e).new_decoder_without_bom_handling();
    let mut out = [0u16; 140];
    let mut pos = 0usize; let mut w = 0usize;
    loop {
        let (r, read, written) = dec.decode_to_utf16_without_replacement(&buf[pos..n], &mut out[w..], true);
        pos += read; w += written;
        match r {
            DecoderResult::InputEmpty => break,
            DecoderResult::Malformed(_, _) => { check(false, 120); break; }
            DecoderResult::OutputFull => { check(false, 121); break; }
        }
    }
    // escape scanner: state implied by the bytes already emitted
    let mut outside_ascii = false;
    if e == E_ISO_2022_JP {
        let mut i = 0;
        while i + 2 < n + 0 {
            if buf[i] == 0x1B { outside_ascii = !(buf[i + 1] == 0x28 && buf[i + 2] == 0x42); i += 3; } else { i += 1; }
        }
    }
    check(enc_.has_pending_state() == outside_ascii, 122);
}
