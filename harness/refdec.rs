// Reference decoders: line-by-line transcriptions of the decoder algorithms of the WHATWG Encoding
// Standard, run over a complete stream.  Output: scalar values and error tokens with the absolute span
// [start, start+len) of the bytes the erroring step consumed and did not restore ("prepend") to the stream.
// "prepend byte(s) to the stream" is implemented by moving the read index back, which is equivalent because
// every algorithm only ever restores the bytes it has just read.
use crate::*;
use super::encs::*;
use super::gen_tables::*;

pub const K_UNIT: u8 = 0;
pub const K_ERR: u8 = 1;

#[derive(Clone, Copy, PartialEq)]
pub struct Ev { pub k: u8, pub a: u32, pub b: u32 }

pub const LOGCAP: usize = 48;

pub struct Log { pub ev: [Ev; LOGCAP], pub n: usize, pub overflow: bool }

impl Log {
    pub fn new() -> Log { Log { ev: [Ev { k: 0, a: 0, b: 0 }; LOGCAP], n: 0, overflow: false } }
    #[inline(never)]
    pub fn push(&mut self, k: u8, a: u32, b: u32) {
        if self.n < LOGCAP { self.ev[self.n] = Ev { k, a, b }; self.n += 1; } else { self.overflow = true; }
    }
    pub fn unit(&mut self, u: u32) { self.push(K_UNIT, u, 0); }
    pub fn err(&mut self, start: usize, len: usize) { self.push(K_ERR, start as u32, len as u32); }
    pub fn scalar16(&mut self, c: u32) {
        if c < 0x10000 { self.unit(c); } else { let v = c - 0x10000; self.unit(0xD800 | (v >> 10)); self.unit(0xDC00 | (v & 0x3FF)); }
    }
    pub fn scalar8(&mut self, c: u32) {
        if c < 0x80 { self.unit(c); }
        else if c < 0x800 { self.unit(0xC0 | (c >> 6)); self.unit(0x80 | (c & 0x3F)); }
        else if c < 0x10000 { self.unit(0xE0 | (c >> 12)); self.unit(0x80 | ((c >> 6) & 0x3F)); self.unit(0x80 | (c & 0x3F)); }
        else { self.unit(0xF0 | (c >> 18)); self.unit(0x80 | ((c >> 12) & 0x3F)); self.unit(0x80 | ((c >> 6) & 0x3F)); self.unit(0x80 | (c & 0x3F)); }
    }
}

/// sink of the reference decoders: form 16 = UTF-16 code units, 8 = UTF-8 bytes, 0 = scalar values
pub struct Sink<'a> { pub log: &'a mut Log, pub form: u8 }
impl<'a> Sink<'a> {
    fn cp(&mut self, c: u32) { match self.form { 16 => self.log.scalar16(c), 8 => self.log.scalar8(c), _ => self.log.unit(c) } }
    fn err(&mut self, start: usize, len: usize) { self.log.err(start, len); }
}

fn is_ascii(b: u8) -> bool { b < 0x80 }
fn in_range(b: u8, lo: u8, hi: u8) -> bool { b >= lo && b <= hi }

pub fn ref_decode(e: usize, b: &[u8], out: &mut Sink) {
    match e {
        E_UTF_8 => utf8(b, out),
        E_BIG5 => big5(b, out),
        E_EUC_KR => euc_kr(b, out),
        E_SHIFT_JIS => shift_jis(b, out),
        E_EUC_JP => euc_jp(b, out),
        E_ISO_2022_JP => iso_2022_jp(b, out),
        E_GBK | E_GB18030 => gb18030(b, out),
        E_UTF_16BE => utf16(b, out, true),
        E_UTF_16LE => utf16(b, out, false),
        E_REPLACEMENT => replacement(b, out),
        E_X_USER_DEFINED => x_user_defined(b, out),
        _ => single_byte(e, b, out),
    }
}

// ------------------------------------------------------------------------------------------ UTF-8
fn utf8(b: &[u8], out: &mut Sink) {
    let mut cp: u32 = 0; let mut seen = 0usize; let mut needed = 0usize; let mut lower: u8 = 0x80; let mut upper: u8 = 0xBF;
    let mut start = 0usize;
    let mut i = 0usize;
    loop {
        if i == b.len() {
            if needed != 0 { out.err(start, i - start); }
            return;
        }
        let byte = b[i]; i += 1;
        if needed == 0 {
            start = i - 1;
            if byte < 0x80 { out.cp(byte as u32); }
            else if in_range(byte, 0xC2, 0xDF) { needed = 1; cp = (byte & 0x1F) as u32; }
            else if in_range(byte, 0xE0, 0xEF) {
                if byte == 0xE0 { lower = 0xA0; }
                if byte == 0xED { upper = 0x9F; }
                needed = 2; cp = (byte & 0xF) as u32;
            }
            else if in_range(byte, 0xF0, 0xF4) {
                if byte == 0xF0 { lower = 0x90; }
                if byte == 0xF4 { upper = 0x8F; }
                needed = 3; cp = (byte & 0x7) as u32;
            }
            else { out.err(start, 1); }
            continue;
        }
        if !in_range(byte, lower, upper) {
            cp = 0; needed = 0; seen = 0; lower = 0x80; upper = 0xBF;
            i -= 1; // prepend byte
            out.err(start, i - start);
            continue;
        }
        lower = 0x80; upper = 0xBF;
        cp = (cp << 6) | (byte & 0x3F) as u32;
        seen += 1;
        if seen != needed { continue; }
        out.cp(cp);
        cp = 0; needed = 0; seen = 0;
    }
}

// ------------------------------------------------------------------------------------------ single-byte
fn single_byte(e: usize, b: &[u8], out: &mut Sink) {
    // index data of the 28 single-byte encodings: no second copy exists offline; the crate's table is trusted data
    let table: &'static [u16; 128] = match enc(e).variant {
        VariantEncoding::SingleByte(t, _, _, _) => t,
        _ => { super::se::check(false, 900); return; }
    };
    let mut i = 0usize;
    while i < b.len() {
        let byte = b[i];
        if byte < 0x80 { out.cp(byte as u32); }
        else {
            let c = table[(byte - 0x80) as usize];
            if c == 0 { out.err(i, 1); } else { out.cp(c as u32); }
        }
        i += 1;
    }
}

fn x_user_defined(b: &[u8], out: &mut Sink) {
    let mut i = 0usize;
    while i < b.len() {
        let byte = b[i];
        if byte < 0x80 { out.cp(byte as u32); } else { out.cp(0xF780 + byte as u32 - 0x80); }
        i += 1;
    }
}

fn replacement(b: &[u8], out: &mut Sink) {
    // "replacement error returned" flag: one error for the first byte, everything else is consumed silently
    if b.len() > 0 { out.err(0, 1); }
}

// ------------------------------------------------------------------------------------------ Big5
fn big5(b: &[u8], out: &mut Sink) {
    let mut lead: u8 = 0; let mut i = 0usize;
    loop {
        if i == b.len() {
            if lead != 0 { out.err(i - 1, 1); }
            return;
        }
        let byte = b[i]; i += 1;
        if lead != 0 {
            let l = lead; lead = 0;
            let offset: u8 = if byte < 0x7F { 0x40 } else { 0x62 };
            let mut pointer: usize = usize::MAX;
            if in_range(byte, 0x40, 0x7E) || in_range(byte, 0xA1, 0xFE) {
                pointer = (l as usize - 0x81) * 157 + (byte - offset) as usize;
            }
            if pointer == 1133 { out.cp(0xCA); out.cp(0x304); continue; }
            if pointer == 1135 { out.cp(0xCA); out.cp(0x30C); continue; }
            if pointer == 1164 { out.cp(0xEA); out.cp(0x304); continue; }
            if pointer == 1166 { out.cp(0xEA); out.cp(0x30C); continue; }
            let c: u32 = if pointer != usize::MAX && pointer < REF_BIG5.len() { REF_BIG5[pointer] } else { 0 };
            if c != 0 { out.cp(c); continue; }
            if is_ascii(byte) { i -= 1; out.err(i - 1, 1); } else { out.err(i - 2, 2); }
            continue;
        }
        if is_ascii(byte) { out.cp(byte as u32); }
        else if in_range(byte, 0x81, 0xFE) { lead = byte; }
        else { out.err(i - 1, 1); }
    }
}

// ------------------------------------------------------------------------------------------ EUC-KR
fn euc_kr(b: &[u8], out: &mut Sink) {
    let mut lead: u8 = 0; let mut i = 0usize;
    loop {
        if i == b.len() {
            if lead != 0 { out.err(i - 1, 1); }
            return;
        }
        let byte = b[i]; i += 1;
        if lead != 0 {
            let l = lead; lead = 0;
            let mut pointer: usize = usize::MAX;
            if in_range(byte, 0x41, 0xFE) { pointer = (l as usize - 0x81) * 190 + (byte as usize - 0x41); }
            let c: u32 = if pointer != usize::MAX && pointer < REF_EUC_KR.len() { REF_EUC_KR[pointer] as u32 } else { 0 };
            if c != 0 { out.cp(c); continue; }
            if is_ascii(byte) { i -= 1; out.err(i - 1, 1); } else { out.err(i - 2, 2); }
            continue;
        }
        if is_ascii(byte) { out.cp(byte as u32); }
        else if in_range(byte, 0x81, 0xFE) { lead = byte; }
        else { out.err(i - 1, 1); }
    }
}

// ------------------------------------------------------------------------------------------ Shift_JIS
fn shift_jis(b: &[u8], out: &mut Sink) {
    let mut lead: u8 = 0; let mut i = 0usize;
    loop {
        if i == b.len() {
            if lead != 0 { out.err(i - 1, 1); }
            return;
        }
        let byte = b[i]; i += 1;
        if lead != 0 {
            let l = lead; lead = 0;
            let offset: u8 = if byte < 0x7F { 0x40 } else { 0x41 };
            let lead_offset: u8 = if l < 0xA0 { 0x81 } else { 0xC1 };
            let mut pointer: usize = usize::MAX;
            if in_range(byte, 0x40, 0x7E) || in_range(byte, 0x80, 0xFC) {
                pointer = (l - lead_offset) as usize * 188 + (byte - offset) as usize;
            }
            if pointer != usize::MAX && pointer >= 8836 && pointer <= 10715 { out.cp((0xE000 - 8836 + pointer) as u32); continue; }
            let c: u32 = if pointer != usize::MAX && pointer < REF_JIS0208.len() { REF_JIS0208[pointer] as u32 } else { 0 };
            if c != 0 { out.cp(c); continue; }
            if is_ascii(byte) { i -= 1; out.err(i - 1, 1); } else { out.err(i - 2, 2); }
            continue;
        }
        if is_ascii(byte) || byte == 0x80 { out.cp(byte as u32); }
        else if in_range(byte, 0xA1, 0xDF) { out.cp(0xFF61 - 0xA1 + byte as u32); }
        else if in_range(byte, 0x81, 0x9F) || in_range(byte, 0xE0, 0xFC) { lead = byte; }
        else { out.err(i - 1, 1); }
    }
}

// ------------------------------------------------------------------------------------------ EUC-JP
fn euc_jp(b: &[u8], out: &mut Sink) {
    let mut lead: u8 = 0; let mut jis0212 = false; let mut i = 0usize; let mut start = 0usize;
    loop {
        if i == b.len() {
            if lead != 0 { out.err(start, i - start); }
            return;
        }
        let byte = b[i]; i += 1;
        if lead == 0x8E && in_range(byte, 0xA1, 0xDF) { lead = 0; out.cp(0xFF61 - 0xA1 + byte as u32); continue; }
        if lead == 0x8F && in_range(byte, 0xA1, 0xFE) { jis0212 = true; lead = byte; continue; }
        if lead != 0 {
            let l = lead; lead = 0;
            let mut c: u32 = 0;
            if in_range(l, 0xA1, 0xFE) && in_range(byte, 0xA1, 0xFE) {
                let p = (l as usize - 0xA1) * 94 + byte as usize - 0xA1;
                c = if jis0212 { REF_JIS0212[p] as u32 } else { REF_JIS0208[p] as u32 };
            }
            jis0212 = false;
            if c != 0 { out.cp(c); continue; }
            if is_ascii(byte) { i -= 1; }
            out.err(start, i - start);
            continue;
        }
        if is_ascii(byte) { out.cp(byte as u32); }
        else if byte == 0x8E || byte == 0x8F || in_range(byte, 0xA1, 0xFE) { lead = byte; start = i - 1; }
        else { out.err(i - 1, 1); }
    }
}

// ------------------------------------------------------------------------------------------ ISO-2022-JP
const S_ASCII: u8 = 0; const S_ROMAN: u8 = 1; const S_KATAKANA: u8 = 2; const S_LEAD: u8 = 3; const S_TRAIL: u8 = 4;
const S_ESC_START: u8 = 5; const S_ESC: u8 = 6;

fn iso_2022_jp(b: &[u8], out: &mut Sink) {
    let mut state = S_ASCII; let mut ostate = S_ASCII; let mut lead: u8 = 0; let mut oflag = false;
    let mut i = 0usize;
    loop {
        let eof = i == b.len();
        let byte: u8 = if eof { 0 } else { b[i] };
        if !eof { i += 1; }
        match state {
            S_ASCII => {
                if eof { return; }
                if byte == 0x1B { state = S_ESC_START; }
                else if byte <= 0x7F && byte != 0x0E && byte != 0x0F { oflag = false; out.cp(byte as u32); }
                else { oflag = false; out.err(i - 1, 1); }
            }
            S_ROMAN => {
                if eof { return; }
                if byte == 0x1B { state = S_ESC_START; }
                else if byte == 0x5C { oflag = false; out.cp(0xA5); }
                else if byte == 0x7E { oflag = false; out.cp(0x203E); }
                else if byte <= 0x7F && byte != 0x0E && byte != 0x0F { oflag = false; out.cp(byte as u32); }
                else { oflag = false; out.err(i - 1, 1); }
            }
            S_KATAKANA => {
                if eof { return; }
                if byte == 0x1B { state = S_ESC_START; }
                else if in_range(byte, 0x21, 0x5F) { oflag = false; out.cp(0xFF61 - 0x21 + byte as u32); }
                else { oflag = false; out.err(i - 1, 1); }
            }
            S_LEAD => {
                if eof { return; }
                if byte == 0x1B { state = S_ESC_START; }
                else if in_range(byte, 0x21, 0x7E) { oflag = false; lead = byte; state = S_TRAIL; }
                else { oflag = false; out.err(i - 1, 1); }
            }
            S_TRAIL => {
                if eof { state = S_LEAD; out.err(i - 1, 1); continue; }
                // the byte in error is the lead; the ESC is consumed and used (it starts an escape sequence)
                if byte == 0x1B { state = S_ESC_START; out.err(i - 2, 1); }
                else if in_range(byte, 0x21, 0x7E) {
                    state = S_LEAD;
                    let p = (lead as usize - 0x21) * 94 + byte as usize - 0x21;
                    let c = REF_JIS0208[p] as u32;
                    if c == 0 { out.err(i - 2, 2); } else { out.cp(c); }
                }
                else { state = S_LEAD; out.err(i - 2, 2); }
            }
            S_ESC_START => {
                if !eof && (byte == 0x24 || byte == 0x28) { lead = byte; state = S_ESC; continue; }
                if !eof { i -= 1; }            // prepend byte
                oflag = false; state = ostate;
                out.err(i - 1, 1);             // the ESC
            }
            _ => {
                // escape
                let l = lead; lead = 0;
                let mut st: u8 = 255;
                if !eof {
                    if l == 0x28 && byte == 0x42 { st = S_ASCII; }
                    if l == 0x28 && byte == 0x4A { st = S_ROMAN; }
                    if l == 0x28 && byte == 0x49 { st = S_KATAKANA; }
                    if l == 0x24 && (byte == 0x40 || byte == 0x42) { st = S_LEAD; }
                }
                if st != 255 {
                    state = st; ostate = st;
                    let was = oflag; oflag = true;
                    // an escape sequence immediately following another one: the error is the first (useless) one
                    if was { out.err(i - 6, 3); }
                    continue;
                }
                // prepend lead and byte
                if !eof { i -= 2; } else { i -= 1; }
                oflag = false; state = ostate;
                out.err(i - 1, 1);             // the ESC
            }
        }
    }
}

// ------------------------------------------------------------------------------------------ gb18030 / GBK (same decoder)
pub fn gb18030_ranges_code_point(pointer: u32) -> u32 {
    if (pointer > 39419 && pointer < 189000) || pointer > 1237575 { return 0xFFFF_FFFF; }
    if pointer == 7457 { return 0xE7C7; }
    if pointer >= 189000 { return 0x10000 + pointer - 189000; }
    // index gb18030 ranges: trusted data (the crate's own table; no second copy exists offline)
    let mut k = 0usize;
    let mut off = 0u32; let mut cpo = 0u32;
    while k < crate::data::GB18030_RANGE_POINTERS.len() {
        let p = crate::data::GB18030_RANGE_POINTERS[k] as u32;
        if p <= pointer { off = p; cpo = crate::data::GB18030_RANGE_OFFSETS[k] as u32; } else { break; }
        k += 1;
    }
    cpo + pointer - off
}

fn gb18030(b: &[u8], out: &mut Sink) {
    let mut first: u8 = 0; let mut second: u8 = 0; let mut third: u8 = 0; let mut i = 0usize; let mut start = 0usize;
    loop {
        if i == b.len() {
            if first != 0 || second != 0 || third != 0 { out.err(start, i - start); }
            return;
        }
        let byte = b[i]; i += 1;
        if third != 0 {
            if !in_range(byte, 0x30, 0x39) {
                i -= 3; first = 0; second = 0; third = 0;
                out.err(start, 1);
                continue;
            }
            let pointer = (first as u32 - 0x81) * (10 * 126 * 10) + (second as u32 - 0x30) * (10 * 126) + (third as u32 - 0x81) * 10 + byte as u32 - 0x30;
            let c = gb18030_ranges_code_point(pointer);
            first = 0; second = 0; third = 0;
            if c == 0xFFFF_FFFF { out.err(start, 4); } else { out.cp(c); }
            continue;
        }
        if second != 0 {
            if in_range(byte, 0x81, 0xFE) { third = byte; continue; }
            i -= 2; first = 0; second = 0;
            out.err(start, 1);
            continue;
        }
        if first != 0 {
            if in_range(byte, 0x30, 0x39) { second = byte; continue; }
            let l = first; first = 0;
            let offset: u8 = if byte < 0x7F { 0x40 } else { 0x41 };
            let mut c: u32 = 0;
            if in_range(byte, 0x40, 0x7E) || in_range(byte, 0x80, 0xFE) {
                let p = (l as usize - 0x81) * 190 + (byte - offset) as usize;
                c = REF_GB18030[p] as u32;
            }
            if c != 0 { out.cp(c); continue; }
            if is_ascii(byte) { i -= 1; }
            out.err(start, i - start);
            continue;
        }
        if is_ascii(byte) { out.cp(byte as u32); }
        else if byte == 0x80 { out.cp(0x20AC); }
        else if in_range(byte, 0x81, 0xFE) { first = byte; start = i - 1; }
        else { out.err(i - 1, 1); }
    }
}

// ------------------------------------------------------------------------------------------ UTF-16BE/LE
fn utf16(b: &[u8], out: &mut Sink, be: bool) {
    let mut lead_byte: i32 = -1; let mut lead_sur: i32 = -1; let mut i = 0usize;
    loop {
        if i == b.len() {
            if lead_byte != -1 || lead_sur != -1 {
                let n = (if lead_byte != -1 { 1 } else { 0 }) + (if lead_sur != -1 { 2 } else { 0 });
                out.err(i - n, n);
            }
            return;
        }
        let byte = b[i]; i += 1;
        if lead_byte == -1 { lead_byte = byte as i32; continue; }
        let unit: u32 = if be { ((lead_byte as u32) << 8) + byte as u32 } else { ((byte as u32) << 8) + lead_byte as u32 };
        lead_byte = -1;
        if lead_sur != -1 {
            let ls = lead_sur as u32; lead_sur = -1;
            if unit >= 0xDC00 && unit <= 0xDFFF { out.cp(0x10000 + ((ls - 0xD800) << 10) + (unit - 0xDC00)); continue; }
            i -= 2; // prepend the two bytes of the code unit
            out.err(i - 2, 2);
            continue;
        }
        if unit >= 0xD800 && unit <= 0xDBFF { lead_sur = unit as i32; continue; }
        if unit >= 0xDC00 && unit <= 0xDFFF { out.err(i - 2, 2); continue; }
        out.cp(unit);
    }
}
