use crate::*;
use super::se::*;
// pipeline self-test run by `./check --setup`: a symbolic byte through a real decoder, one assertion that holds,
// one witness on each side of a data-dependent branch
harness!(se_h_selftest_nop, selftest_nop, {
    let b = sym_u8(0);
    let mut d = WINDOWS_1252.new_decoder_without_bom_handling();
    let mut out = [0u16; 4];
    let (r, read, written) = d.decode_to_utf16_without_replacement(&[b], &mut out, true);
    check(r == DecoderResult::InputEmpty && read == 1 && written == 1, 1);
    if b < 0x80 { check(out[0] == b as u16, 2); reach(1); } else { check(out[0] >= 0x80, 3); reach(2); }
    reach(END);
});
