use crate::*;
use super::se::*;
harness!(se_h_selftest_nop, selftest_nop, { reach(END); });
