// C01: decoding conforms to the Encoding Standard for every byte sequence (complete stream, worst-case sink).
use crate::*;
use super::se::*;
use super::encs::*;
use super::refdec::*;
use super::drv::*;

pub fn put_prefix(id: usize, dst: &mut [u8]) -> usize {
    let p: &[u8] = match id {
        0 => b"",
        1 => b"\x1b(B",
        2 => b"\x1b(J",
        3 => b"\x1b(I",
        4 => b"\x1b$@",
        5 => b"\x1b$B",
        6 => b"a\x1b(J",
        7 => b"a\x1b$B",
        8 => b"\x1b$B\x30",      // escape + pending lead byte
        9 => b"\x1b(",           // truncated escapes
        10 => b"\x1b$",
        11 => b"\x1b",
        12 => b"a\x1b(B",
        13 => b"\x1b(I\x1b",
        15 => b"a",              // one ASCII unit ahead of the symbolic bytes (any encoding)
        _ => b"\x1b$B\x1b(",
    };
    let mut i = 0;
    while i < p.len() { dst[i] = p[i]; i += 1; }
    p.len()
}

// params: 0 encoding, 1/2 range of the number of symbolic bytes, 3 sink (0 UTF-16, 1 UTF-8), 4 replacement,
//         5/6 range of the first symbolic byte (shard), 7 concrete prefix id (ISO-2022-JP escapes),
//         8 concrete escape id inserted after the first symbolic byte ("escape, byte, escape": the Standard's output flag)
harness!(se_h_c01_decode, c01_decode, {
    let e = param(0);
    let sink = param(3);
    let repl = param(4) != 0;
    let lo = param(5) as u8;
    let hi = param(6) as u8;
    let mut src = [0u8; 16];
    let mut len = put_prefix(param(7), &mut src);
    let n = sym_range(100, param(1), param(2));
    let mid = param(8);
    let mut i = 0;
    let first = len;
    while i < n {
        src[len] = sym_u8(i as u32);
        len += 1;
        if i == 0 && mid != 0 { len += put_prefix(mid, &mut src[len..]); }
        i += 1;
    }
    if n > 0 { assume(src[first] >= lo && src[first] <= hi); }
    let mut dec = new_decoder(e, BOM_OFF);
    let mut run = Run::new(56);
    push(&mut dec, sink, repl, &src[..len], true, &mut run);
    check(run.finished, 1);
    check(!run.output_full_seen, 3);
    let mut exp = Log::new();
    let had = ref_log(e, &src[..len], sink, repl, &mut exp);
    same_log(&run.log, &exp, 10);
    if repl { check(run.had_errors == had, 2); }
    if had { reach(20); } else { reach(21); }
    reach(END);
});
