// C11: the one-shot convenience API equals the streaming API and borrows only when promised.
use crate::*;
use super::se::*;
use super::encs::*;
use super::refs;
use super::edrv::Text;
use alloc::borrow::Cow;

fn bom_len(e: usize, mode: usize, b: &[u8]) -> (usize, usize) {
    // (encoding index used, BOM bytes skipped) for mode 0 = sniff (decode), 1 = removal, 2 = none
    let utf8 = b.len() >= 3 && b[0] == 0xEF && b[1] == 0xBB && b[2] == 0xBF;
    let be = b.len() >= 2 && b[0] == 0xFE && b[1] == 0xFF;
    let le = b.len() >= 2 && b[0] == 0xFF && b[1] == 0xFE;
    match mode {
        0 => if utf8 { (E_UTF_8, 3) } else if be { (E_UTF_16BE, 2) } else if le { (E_UTF_16LE, 2) } else { (e, 0) },
        1 => if e == E_UTF_8 && utf8 { (e, 3) } else if e == E_UTF_16BE && be { (e, 2) } else if e == E_UTF_16LE && le { (e, 2) } else { (e, 0) },
        _ => (e, 0),
    }
}

/// the documented condition under which the decode result is a borrow of the input (after BOM removal)
fn borrow_promised(used: usize, rest: &[u8]) -> bool {
    if used == E_UTF_8 { return refs::utf8_valid_up_to(rest) == rest.len(); }
    if used == E_ISO_2022_JP { return refs::iso2022jp_ascii_up_to(rest) == rest.len(); }
    if used == E_UTF_16BE || used == E_UTF_16LE || used == E_REPLACEMENT { return false; }
    refs::ascii_up_to(rest) == rest.len()
}

// decode side.  params: 0 encoding, 1 API (0 decode, 1 decode_with_bom_removal, 2 decode_without_bom_handling,
//   3 decode_without_bom_handling_and_without_replacement), 2 total length L, 3 window position p, 4 window size W
harness!(se_h_c11_decode, c11_decode, {
    let e = param(0);
    let api = param(1);
    let l = param(2);
    let p = param(3);
    let w = param(4);
    let mut buf = [0u8; 160];
    let mut i = 0;
    while i < l { buf[i] = 0x61 + (i % 23) as u8; i += 1; }
    i = 0;
    while i < w { buf[p + i] = sym_u8(i as u32); i += 1; }
    let b = &buf[..l];
    let en = enc(e);
    let mode = if api >= 2 { 2 } else { api };
    let (ue, skip) = bom_len(e, mode, b);
    // streaming yardstick: one call with a worst-case-sized sink on a decoder in the matching BOM mode
    let mut out = [0u8; 600];
    let mut d = match mode { 0 => en.new_decoder(), 1 => en.new_decoder_with_bom_removal(), _ => en.new_decoder_without_bom_handling() };
    if api == 3 {
        let (r, rd, wr) = d.decode_to_utf8_without_replacement(b, &mut out, true);
        let res = en.decode_without_bom_handling_and_without_replacement(b);
        match r {
            DecoderResult::InputEmpty => {
                check(rd == l, 1);
                match res {
                    None => check(false, 2),
                    Some(c) => {
                        let cb = c.as_bytes();
                        check(cb.len() == wr, 3);
                        let mut j = 0; while j < wr && j < cb.len() { check(cb[j] == out[j], 4); j += 1; }
                        let borrowed = match c { Cow::Borrowed(_) => true, _ => false };
                        if borrow_promised(ue, &b[skip..]) { check(borrowed, 5); reach(70); }
                        if borrowed { check(cb.as_ptr() == b[skip..].as_ptr() && cb.len() == l - skip, 6); }
                    }
                }
            }
            DecoderResult::Malformed(_, _) => { check(res.is_none(), 7); reach(72); }
            DecoderResult::OutputFull => check(false, 8),
        }
    } else {
        let (r, rd, wr, had) = d.decode_to_utf8(b, &mut out, true);
        check(r == CoderResult::InputEmpty && rd == l, 1);
        let (c, used, had2) = match api {
            0 => en.decode(b),
            1 => { let (c, h) = en.decode_with_bom_removal(b); (c, en, h) }
            _ => { let (c, h) = en.decode_without_bom_handling(b); (c, en, h) }
        };
        if api == 0 { check(used == d.encoding() && used == enc(ue), 9); }
        check(had == had2, 10);
        let cb = c.as_bytes();
        check(cb.len() == wr, 3);
        let mut j = 0; while j < wr && j < cb.len() { check(cb[j] == out[j], 4); j += 1; }
        check(refs::utf8_valid_up_to(cb) == cb.len(), 11);
        let borrowed = match c { Cow::Borrowed(_) => true, _ => false };
        if borrow_promised(ue, &b[skip..]) { check(borrowed, 5); reach(70); } else { reach(71); }
        if borrowed { check(cb.as_ptr() == b[skip..].as_ptr() && cb.len() == l - skip, 6); }
        if had { reach(72); }
    }
    if skip > 0 { reach(73); }
    reach(END);
});

// encode side: text = k ASCII + one symbolic character (plane base + window) + s ASCII.
// params: 0 encoding, 2 k, 3 plane base, 4/5 window, 6 s
harness!(se_h_c11_encode, c11_encode, {
    let e = param(0);
    let en = enc(e);
    let s = sym_u16(0);
    assume(s as usize >= param(4) && s as usize <= param(5));
    let c = param(3) as u32 + s as u32;
    assume(!(c >= 0xD800 && c <= 0xDFFF) && c <= 0x10FFFF);
    let mut b = [0u8; 160]; let mut n = 0usize;
    let mut i = 0;
    while i < param(2) { b[n] = 0x61 + (i % 23) as u8; n += 1; i += 1; }
    n += refs::put_utf8(c, &mut b[n..]);
    i = 0;
    while i < param(6) { b[n] = 0x41 + (i % 23) as u8; n += 1; i += 1; }
    let text = unsafe { core::str::from_utf8_unchecked(&b[..n]) };
    let (cow, used, had) = en.encode(text);
    let mut x = en.new_encoder();
    let mut out = [0u8; 400];
    let (r, rd, wr, had2) = x.encode_from_utf8(text, &mut out, true);
    check(r == CoderResult::InputEmpty && rd == n, 1);
    check(used == x.encoding() && used == en.output_encoding(), 9);
    check(had == had2, 10);
    check(cow.len() == wr, 3);
    let mut j = 0; while j < wr && j < cow.len() { check(cow[j] == out[j], 4); j += 1; }
    let borrowed = match cow { Cow::Borrowed(_) => true, _ => false };
    let ascii_only = if used == ISO_2022_JP { refs::iso2022jp_ascii_up_to(&b[..n]) == n } else { refs::ascii_up_to(&b[..n]) == n };
    if used == UTF_8 || (ascii_only && used != UTF_16BE && used != UTF_16LE) { check(borrowed, 5); reach(70); } else { reach(71); }
    if borrowed { check(cow.as_ptr() == b.as_ptr() && cow.len() == n, 6); }
    if had { reach(72); }
    reach(END);
});
