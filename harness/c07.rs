// C07: worst-case buffer-length queries are sufficient in every reachable state.
use crate::*;
use super::se::*;
use super::encs::*;
use super::refdec::*;
use super::drv::*;
use super::edrv::*;
use super::c01::put_prefix;
use super::c03::neighbour;

// decoder side: a symbolic prefix (pushed with last=false in one or two calls into a large sink) brings the decoder
// into an arbitrary reachable state; then q = max_*_buffer_length*(n) and n more symbolic bytes are decoded into a
// destination of exactly q units: never OutputFull.
// params: 0 encoding, 1 max prefix length, 2 max remaining length, 3 pairing (0 = UTF-8 with replacement,
//         1 = UTF-8 without replacement, 2 = UTF-16 with replacement, 3 = UTF-16 without replacement),
//         5/6 first-byte shard of the prefix, 7 concrete prefix id, 8 BOM mode, 9 last flag (0 false, 1 true, 2 symbolic)
harness!(se_h_c07_dec, c07_dec, {
    let e = param(0);
    let pairing = param(3);
    let mut src = [0u8; 24];
    let mut plen = put_prefix(param(7), &mut src);
    let p = sym_range(100, 0, param(1));
    let mut i = 0;
    while i < p { src[plen + i] = sym_u8(i as u32); i += 1; }
    if p > 0 { assume(src[plen] >= param(5) as u8 && src[plen] <= param(6) as u8); }
    plen += p;
    let n = sym_range(101, 0, param(2));
    i = 0;
    while i < n { src[plen + i] = sym_u8(20 + i as u32); i += 1; }
    let mut d = new_decoder(e, param(8));
    // reach the state: prefix in one or two calls, generous sink, errors skipped as a caller would
    let cut = sym_range(102, 0, plen);
    let sink = if pairing < 2 { SK_U8 } else { SK_U16 };
    let mut pre = Run::new(56);
    push(&mut d, sink, false, &src[..cut], false, &mut pre);
    push(&mut d, sink, false, &src[cut..plen], false, &mut pre);
    let last = match param(9) { 0 => false, 1 => true, _ => sym_range(103, 0, 1) == 1 };
    let q = match pairing {
        0 => d.max_utf8_buffer_length(n),
        1 => d.max_utf8_buffer_length_without_replacement(n),
        _ => d.max_utf16_buffer_length(n),
    };
    let q = match q { Some(v) => v, None => { check(false, 30); 0 } };
    check(q <= 120, 31);
    let rest = &src[plen..plen + n];
    let mut d8 = [0u8; 128];
    let mut d16 = [0u16; 128];
    let mut pos = 0usize; let mut w = 0usize; let mut calls = 0usize;
    loop {
        calls += 1;
        check(calls < 40, 32);
        match pairing {
            0 => { let (r, rd, wr, _) = d.decode_to_utf8(&rest[pos..], &mut d8[w..q], last); pos += rd; w += wr; check(r != CoderResult::OutputFull, 33); break; }
            2 => { let (r, rd, wr, _) = d.decode_to_utf16(&rest[pos..], &mut d16[w..q], last); pos += rd; w += wr; check(r != CoderResult::OutputFull, 33); break; }
            1 => {
                let (r, rd, wr) = d.decode_to_utf8_without_replacement(&rest[pos..], &mut d8[w..q], last); pos += rd; w += wr;
                check(r != DecoderResult::OutputFull, 33);
                if r == DecoderResult::InputEmpty { break; }
                reach(41);
            }
            _ => {
                let (r, rd, wr) = d.decode_to_utf16_without_replacement(&rest[pos..], &mut d16[w..q], last); pos += rd; w += wr;
                check(r != DecoderResult::OutputFull, 33);
                if r == DecoderResult::InputEmpty { break; }
                // the query for UTF-16 covers the replacing method: the caller appends one U+FFFD per error
                check(w < q, 34); d16[w] = 0xFFFD; w += 1;
                reach(41);
            }
        }
    }
    check(pos == n, 35);
    check(w <= q, 36);
    if plen > 0 && p > 0 { reach(40); }
    if w == q && q > 0 { reach(42); }     // the bound is tight for some input
    reach(END);
});

// encoder side.  text: ASCII prefix + [x] pushed first (state for ISO-2022-JP), then [c][y] into exactly the queried size.
// params: 0 encoding, 1 source form, 2 pairing (0 = without replacement, 1 = if no unmappables), 3 plane base, 4/5 window,
//         6 neighbour pushed before (state), 7 neighbour after, 9 last flag (0,1,2 symbolic)
harness!(se_h_c07_enc, c07_enc, {
    let e = param(0);
    let form = param(1);
    let pairing = param(2);
    let base = param(3) as u32;
    let s = sym_u16(0);
    assume(s as usize >= param(4) && s as usize <= param(5));
    let c = base + s as u32;
    assume(!(c >= 0xD800 && c <= 0xDFFF));
    assume(c <= 0x10FFFF);
    let mut t0 = Text::new();
    if param(6) != 0 { t0.push(neighbour(param(6) - 1)); }
    let mut t = Text::new();
    t.push(c);
    if param(7) != 0 { t.push(neighbour(param(7) - 1)); }
    let mut en = enc(e).new_encoder();
    let mut pre = Run::new(60);
    if form == SRC_UTF8 { epush8_replace(&mut en, EK_SLICE, t0.s8(0, t0.n8), false, &mut pre); } else { epush16_replace(&mut en, EK_SLICE, &t0.b16[..t0.n16], false, &mut pre); }
    let last = match param(9) { 0 => false, 1 => true, _ => sym_range(103, 0, 1) == 1 };
    let units = if form == SRC_UTF8 { t.n8 } else { t.n16 };
    let q = match (form, pairing) {
        (SRC_UTF8, 0) => en.max_buffer_length_from_utf8_without_replacement(units),
        (SRC_UTF8, _) => en.max_buffer_length_from_utf8_if_no_unmappables(units),
        (_, 0) => en.max_buffer_length_from_utf16_without_replacement(units),
        (_, _) => en.max_buffer_length_from_utf16_if_no_unmappables(units),
    };
    let q = match q { Some(v) => v, None => { check(false, 30); 0 } };
    check(q <= 120, 31);
    let mut dst = [0u8; 128];
    let mut pos = 0usize; let mut w = 0usize; let mut calls = 0usize;
    loop {
        calls += 1;
        check(calls < 40, 32);
        if pairing == 0 {
            let (r, rd, wr) = if form == SRC_UTF8 { en.encode_from_utf8_without_replacement(t.s8(pos, t.n8), &mut dst[w..q], last) }
                              else { en.encode_from_utf16_without_replacement(&t.b16[pos..t.n16], &mut dst[w..q], last) };
            pos += rd; w += wr;
            check(r != EncoderResult::OutputFull, 33);
            if r == EncoderResult::InputEmpty { break; }
            reach(41);
        } else {
            let (r, rd, wr, had) = if form == SRC_UTF8 { en.encode_from_utf8(t.s8(pos, t.n8), &mut dst[w..q], last) }
                                   else { en.encode_from_utf16(&t.b16[pos..t.n16], &mut dst[w..q], last) };
            pos += rd; w += wr;
            // guaranteed only when the input has no unmappable character
            if !had { check(r != CoderResult::OutputFull, 33); } else { reach(43); }
            break;
        }
    }
    if w == q && q > 0 { reach(42); }
    reach(END);
});

// overflow clause: each query on fully symbolic lengths a <= b returns None or a value that did not wrap.  A wrapped
// sum or product is not monotone: f(b) = Some(y) must imply f(a) = Some(x) with x <= y.  (No lower bound in terms of the
// length is asserted: the replacement decoder legitimately answers a constant.)
// params: 0 encoding, 1 which query (0..2 decoder: utf8, utf8 w/o replacement, utf16; 3..6 encoder: from utf8 w/o repl,
//         from utf8 if no unmappables, from utf16 w/o repl, from utf16 if no unmappables), 7 prefix id, 8 BOM mode,
//         9 range class (0 = any lengths; 1 = b below 2^40, where nothing may overflow; 2 = a above 2^60)
harness!(se_h_c07_overflow, c07_overflow, {
    let e = param(0);
    let which = param(1);
    let a = sym_u64(0) as usize;
    let b = sym_u64(1) as usize;
    assume(a <= b);
    match param(9) { 1 => assume(b < (1usize << 40)), 2 => assume(a > (1usize << 60)), _ => {} }
    let mut d = new_decoder(e, param(8));
    let mut src = [0u8; 8];
    let plen = put_prefix(param(7), &mut src);
    let mut pre = Run::new(56);
    push(&mut d, SK_U16, false, &src[..plen], false, &mut pre);
    let en = enc(e).new_encoder();
    let f = |n: usize| -> Option<usize> {
        match which {
            0 => d.max_utf8_buffer_length(n),
            1 => d.max_utf8_buffer_length_without_replacement(n),
            2 => d.max_utf16_buffer_length(n),
            3 => en.max_buffer_length_from_utf8_without_replacement(n),
            4 => en.max_buffer_length_from_utf8_if_no_unmappables(n),
            5 => en.max_buffer_length_from_utf16_without_replacement(n),
            _ => en.max_buffer_length_from_utf16_if_no_unmappables(n),
        }
    };
    let fa = f(a);
    let fb = f(b);
    match fb {
        Some(y) => {
            reach(51);
            match fa { Some(x) => { check(x <= y, 2); } None => check(false, 1) }
        }
        None => { reach(50); if param(9) == 1 { check(false, 4); } }     // below 2^40 no query may give up
    }
    reach(END);
});
