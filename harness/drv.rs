// Documented caller loops around the real Decoder, shared by the decoder-side properties
// (C01, C02, C05, C06, C07, C08, C09, C10, C18, C19).  Every call is checked for the read/written
// contract; outputs and malformed-sequence reports are appended to a Log with absolute stream positions.
use crate::*;
use super::se::*;
use super::encs::*;
use super::refdec::*;

pub const SK_U16: usize = 0;
pub const SK_U8: usize = 1;
pub const SK_STR: usize = 2;
pub const SK_STRING: usize = 3;

pub const BOM_OFF: usize = 0;
pub const BOM_REMOVE: usize = 1;
pub const BOM_SNIFF: usize = 2;

#[inline(never)]
pub fn new_decoder(e: usize, bom: usize) -> Decoder {
    match bom {
        BOM_OFF => enc(e).new_decoder_without_bom_handling(),
        BOM_REMOVE => enc(e).new_decoder_with_bom_removal(),
        _ => enc(e).new_decoder(),
    }
}

pub struct Run {
    pub log: Log,
    pub calls: usize,
    pub total_read: usize,      // absolute position in the stream
    pub had_errors: bool,
    pub output_full_seen: bool,
    pub finished: bool,
    pub caps: [usize; 8],       // per-call capacities, cycled
    pub ncaps: usize,
    pub cap_lo: usize,          // when cap_hi > cap_lo the capacity of call k (k < ncaps) is a fresh symbolic value
    pub cap_hi: usize,          // in cap_lo..=cap_hi, drawn only when the call actually happens
    pub drawn: usize,
    pub max_calls: usize,
    pub min_progress: bool,     // assert per-call progress (C08)
    pub full_while_pending: bool,
    pub prefix_check: usize,    // C12: encoding index + 1 whose real decoder must accept the output so far after every call
    pub wf_check: bool,         // C05: the units written by every call must be well-formed on their own (whole characters)
    pub str_fill: usize,        // C05: 0 = zero-filled &mut str; k = pre-filled with valid multi-byte text (3-byte characters) at phase k-1
    pub sym_fill: u32,          // C18: 0 = off; t = destination pre-filled with fresh symbolic units (tags t, t+1, ...)
    pub keep_prefix: bool,      // C06: String / Vec sinks start with existing content that must survive, capacity unchanged
    pub stall_ok: bool,         // C06, destinations below the documented minimum: an OutputFull call without progress ends the run
    pub stalled: bool,
    pub grow: bool,             // after the first `grow_calls` calls (symbolic, possibly tiny capacities) the caller offers a large destination
    pub grow_calls: usize,
}

impl Run {
    pub fn new(cap: usize) -> Run {
        Run { log: Log::new(), calls: 0, total_read: 0, had_errors: false, output_full_seen: false, finished: false,
              caps: [cap; 8], ncaps: 1, cap_lo: cap, cap_hi: cap, drawn: 0, max_calls: 200, min_progress: true, full_while_pending: false, prefix_check: 0,
              wf_check: false, str_fill: 0, sym_fill: 0, keep_prefix: false, stall_ok: false, stalled: false, grow: false, grow_calls: 2 }
    }
    /// symbolic per-call capacities in lo..=hi for the first `n` calls (then cycled)
    pub fn sym_caps(&mut self, lo: usize, hi: usize, n: usize) { self.cap_lo = lo; self.cap_hi = hi; self.ncaps = n; self.drawn = 0; }
    pub fn cap(&mut self) -> usize {
        if self.grow && self.calls >= self.grow_calls { return 56; }
        let k = self.calls % self.ncaps;
        if self.cap_hi > self.cap_lo && k >= self.drawn && self.calls < self.ncaps {
            self.caps[k] = sym_range(110 + k as u32, self.cap_lo, self.cap_hi);
            self.drawn = k + 1;
        }
        self.caps[k]
    }
}

pub const BUF: usize = 64;

/// Push one input buffer through the decoder with the documented caller loop ("keep calling, re-pushing
/// unconsumed input, until InputEmpty"), without replacement.
#[inline(never)]
pub fn push_noreplace(dec: &mut Decoder, sink: usize, src: &[u8], last: bool, run: &mut Run) {
    let mut pos = 0usize;
    loop {
        let cap = run.cap();
        let rest = &src[pos..];
        let mut d16 = [0u16; BUF + 4];
        let mut d8 = [0u8; BUF + 4];
        if sink == SK_U16 { prefill16(run, &mut d16, cap); } else if sink != SK_STRING { prefill8(run, &mut d8, cap); }
        let (res, read, written) = match sink {
            SK_U16 => dec.decode_to_utf16_without_replacement(rest, &mut d16[..cap], last),
            SK_U8 => dec.decode_to_utf8_without_replacement(rest, &mut d8[..cap], last),
            SK_STR => {
                let s = unsafe { core::str::from_utf8_unchecked_mut(&mut d8[..cap]) };
                dec.decode_to_str_without_replacement(rest, s, last)
            }
            _ => {
                let k = if run.keep_prefix { 2 } else { 0 };
                let mut s = alloc::string::String::with_capacity(cap + k);
                if run.keep_prefix { s.push('\u{E4}'); }
                let (r, rd) = dec.decode_to_string_without_replacement(rest, &mut s, last);
                let w = s.len() - k;
                check(w <= cap, 110);
                check(s.capacity() == cap + k, 111);
                let b = s.as_bytes();
                if run.keep_prefix { check(b[0] == 0xC3 && b[1] == 0xA4, 115); }
                if run.wf_check { check(super::refs::utf8_valid_up_to(b) == b.len(), 116); }
                let mut i = 0; while i < w { d8[i] = b[k + i]; i += 1; }
                (r, rd, w)
            }
        };
        if sink == SK_U16 { post16(run, &d16, cap, written); } else { post8(run, &d8, cap, written, sink == SK_STR); }
        run.calls += 1;
        check(read <= rest.len(), 100);
        check(written <= cap, 101);
        pos += read;
        run.total_read += read;
        let mut i = 0;
        while i < written { run.log.unit(if sink == SK_U16 { d16[i] as u32 } else { d8[i] as u32 }); i += 1; }
        match res {
            DecoderResult::InputEmpty => {
                check(pos == src.len(), 102);
                if last { run.finished = true; }
                return;
            }
            DecoderResult::OutputFull => {
                run.output_full_seen = true;
                if run.stall_ok && read == 0 && written == 0 { run.stalled = true; return; }
                if run.min_progress { check(read > 0 || written > 0, 104); }
            }
            DecoderResult::Malformed(l, after) => {
                let l = l as usize; let after = after as usize;
                check(l >= 1 && l <= 4, 105);
                check(after <= 3, 106);
                check(l + after <= 6, 107);
                check(run.total_read >= l + after, 108);
                run.log.err(run.total_read - after - l, l);
                run.had_errors = true;
            }
        }
        check(run.calls < run.max_calls, 103);
    }
}

/// Same loop with the replacing methods.
#[inline(never)]
pub fn push_replace(dec: &mut Decoder, sink: usize, src: &[u8], last: bool, run: &mut Run) {
    let mut pos = 0usize;
    loop {
        let cap = run.cap();
        let rest = &src[pos..];
        let mut d16 = [0u16; BUF + 4];
        let mut d8 = [0u8; BUF + 4];
        if sink == SK_U16 { prefill16(run, &mut d16, cap); } else if sink != SK_STRING { prefill8(run, &mut d8, cap); }
        let (res, read, written, had) = match sink {
            SK_U16 => dec.decode_to_utf16(rest, &mut d16[..cap], last),
            SK_U8 => dec.decode_to_utf8(rest, &mut d8[..cap], last),
            SK_STR => {
                let s = unsafe { core::str::from_utf8_unchecked_mut(&mut d8[..cap]) };
                dec.decode_to_str(rest, s, last)
            }
            _ => {
                let k = if run.keep_prefix { 2 } else { 0 };
                let mut s = alloc::string::String::with_capacity(cap + k);
                if run.keep_prefix { s.push('\u{E4}'); }
                let (r, rd, h) = dec.decode_to_string(rest, &mut s, last);
                let w = s.len() - k;
                check(w <= cap, 110);
                check(s.capacity() == cap + k, 111);
                let b = s.as_bytes();
                if run.keep_prefix { check(b[0] == 0xC3 && b[1] == 0xA4, 115); }
                if run.wf_check { check(super::refs::utf8_valid_up_to(b) == b.len(), 116); }
                let mut i = 0; while i < w { d8[i] = b[k + i]; i += 1; }
                (r, rd, w, h)
            }
        };
        if sink == SK_U16 { post16(run, &d16, cap, written); } else { post8(run, &d8, cap, written, sink == SK_STR); }
        run.calls += 1;
        check(read <= rest.len(), 100);
        check(written <= cap, 101);
        pos += read;
        run.total_read += read;
        let mut i = 0;
        while i < written { run.log.unit(if sink == SK_U16 { d16[i] as u32 } else { d8[i] as u32 }); i += 1; }
        if had { run.had_errors = true; }
        match res {
            CoderResult::InputEmpty => {
                check(pos == src.len(), 102);
                if last { run.finished = true; }
                return;
            }
            CoderResult::OutputFull => {
                run.output_full_seen = true;
                if run.stall_ok && read == 0 && written == 0 { run.stalled = true; return; }
                if run.min_progress { check(read > 0 || written > 0, 104); }
            }
        }
        check(run.calls < run.max_calls, 103);
    }
}

pub fn push(dec: &mut Decoder, sink: usize, repl: bool, src: &[u8], last: bool, run: &mut Run) {
    if repl { push_replace(dec, sink, src, last, run) } else { push_noreplace(dec, sink, src, last, run) }
}

/// compare two logs; ids base+0 (length), base+1 (kind), base+2 (a), base+3 (b)
#[inline(never)]
pub fn same_log(x: &Log, y: &Log, base: u32) {
    check(!x.overflow && !y.overflow, base + 4);
    check(x.n == y.n, base);
    let n = if x.n < y.n { x.n } else { y.n };
    let mut i = 0;
    while i < n {
        check(x.ev[i].k == y.ev[i].k, base + 1);
        check(x.ev[i].a == y.ev[i].a, base + 2);
        check(x.ev[i].b == y.ev[i].b, base + 3);
        i += 1;
    }
}

/// reference log in the form the given sink/replacement mode would produce
#[inline(never)]
pub fn ref_log(e: usize, src: &[u8], sink: usize, repl: bool, out: &mut Log) -> bool {
    let mut raw = Log::new();
    { let mut s = Sink { log: &mut raw, form: 0 }; ref_decode(e, src, &mut s); }
    let mut had = false;
    let mut i = 0;
    while i < raw.n {
        let ev = raw.ev[i];
        if ev.k == K_ERR {
            had = true;
            if repl { if sink == SK_U16 { out.scalar16(0xFFFD); } else { out.scalar8(0xFFFD); } }
            else { out.push(K_ERR, ev.a, ev.b); }
        } else if sink == SK_U16 { out.scalar16(ev.a); } else { out.scalar8(ev.a); }
        i += 1;
    }
    if raw.overflow { out.overflow = true; }
    had
}

/// pre-fill of a destination before a call (C05 / C18) -- applies to the first `cap` units
pub fn prefill8(run: &Run, d: &mut [u8], cap: usize) {
    if run.sym_fill != 0 { let mut i = 0; while i < cap { d[i] = sym_u8(run.sym_fill + i as u32); i += 1; } }
    else if run.str_fill != 0 {
        // valid UTF-8: `phase` ASCII bytes, then whole 3-byte characters, then ASCII to the end
        let phase = run.str_fill - 1;
        let mut i = 0;
        while i < cap && i < phase { d[i] = 0x61; i += 1; }
        while i + 3 <= cap { d[i] = 0xE2; d[i + 1] = 0x82; d[i + 2] = 0xAC; i += 3; }
        while i < cap { d[i] = 0x62; i += 1; }
    }
}
pub fn prefill16(run: &Run, d: &mut [u16], cap: usize) {
    if run.sym_fill != 0 { let mut i = 0; while i < cap { d[i] = sym_u16(run.sym_fill + i as u32); i += 1; } }
}

/// per-call postconditions shared by the decoder drivers: guard units beyond the capacity untouched (C06), written
/// units well-formed on their own (C05), whole &mut str valid (C05)
pub fn post8(run: &Run, d: &[u8], cap: usize, written: usize, is_str: bool) {
    check(d[cap] == 0 && d[cap + 1] == 0 && d[cap + 2] == 0 && d[cap + 3] == 0, 112);
    if run.wf_check { check(super::refs::utf8_valid_up_to(&d[..written]) == written, 113); }
    if is_str && run.sym_fill == 0 { check(super::refs::utf8_valid_up_to(&d[..cap]) == cap, 114); }
}
pub fn post16(run: &Run, d: &[u16], cap: usize, written: usize) {
    check(d[cap] == 0 && d[cap + 1] == 0 && d[cap + 2] == 0 && d[cap + 3] == 0, 112);
    if run.wf_check { check(super::refs::utf16_valid_up_to(&d[..written]) == written, 113); }
}
