// Intrinsics of the symbolic executor (llsym).  In the native replay binary the same symbols are
// provided by /verif/replay/verif_replay.rs and read the counterexample values from a file.
unsafe extern "C" {
    fn se_sym_u8(tag: u32) -> u8;
    fn se_sym_u16(tag: u32) -> u16;
    fn se_sym_u32(tag: u32) -> u32;
    fn se_sym_u64(tag: u32) -> u64;
    fn se_param(k: u32) -> u64;
    fn se_assume(c: bool);
    fn se_assert(c: bool, id: u32);
    fn se_reach(id: u32);
    fn se_out(v: u64);
    fn se_expect_panic(id: u32);
    fn se_concretize(v: u64) -> u64;
    fn se_uninit(p: *mut u8, n: usize);
    fn se_is_init(p: *const u8, n: usize) -> bool;
    fn se_addr(p: *const u8) -> u64;
}

#[inline(always)] pub fn sym_u8(tag: u32) -> u8 { unsafe { se_sym_u8(tag) } }
#[inline(always)] pub fn sym_u16(tag: u32) -> u16 { unsafe { se_sym_u16(tag) } }
#[inline(always)] pub fn sym_u32(tag: u32) -> u32 { unsafe { se_sym_u32(tag) } }
#[inline(always)] pub fn sym_u64(tag: u32) -> u64 { unsafe { se_sym_u64(tag) } }
#[inline(always)] pub fn param(k: u32) -> usize { unsafe { se_param(k) as usize } }
#[inline(always)] pub fn assume(c: bool) { unsafe { se_assume(c) } }
#[inline(always)] pub fn check(c: bool, id: u32) { unsafe { se_assert(c, id) } }
#[inline(always)] pub fn reach(id: u32) { unsafe { se_reach(id) } }
#[inline(always)] pub fn out(v: u64) { unsafe { se_out(v) } }
#[inline(always)] pub fn expect_panic(id: u32) { unsafe { se_expect_panic(id) } }
#[inline(always)] pub fn concretize(v: usize) -> usize { unsafe { se_concretize(v as u64) as usize } }
#[inline(always)] pub fn uninit(p: *mut u8, n: usize) { unsafe { se_uninit(p, n) } }
#[inline(always)] pub fn is_init(p: *const u8, n: usize) -> bool { unsafe { se_is_init(p, n) } }
#[inline(always)] pub fn addr(p: *const u8) -> u64 { unsafe { se_addr(p) } }

/// symbolic usize in lo..=hi, made concrete per path (the executor forks over the feasible values)
pub fn sym_range(tag: u32, lo: usize, hi: usize) -> usize {
    let v = sym_u8(tag) as usize;
    assume(v >= lo && v <= hi);
    concretize(v)
}

pub const END: u32 = 9999;

/// /repo hook (cfg hsivonen_encoding_rs_verif): make utf8_valid_up_to use the crate's own scalar validator
/// for inputs >= 64 bytes too, in the IR and in the native replay binary alike
pub fn force_scalar_utf8_validation() {
    crate::utf_8::VERIF_FORCE_SCALAR_UTF8_VALIDATION.store(true, core::sync::atomic::Ordering::Relaxed);
}
