// C02: decoder results do not depend on how input and output are chunked.
// The same real decoder is run twice on the same symbolic stream: once in a single call sequence with a
// worst-case-sized sink, once cut into up to three input buffers (empty buffers allowed, optionally an
// empty final call carrying `last`) with a fresh symbolic capacity per call.  Text, had_errors and absolute
// malformed-sequence spans must be equal; the UTF-8 and UTF-16 forms must denote the same scalars.
use crate::*;
use super::se::*;
use super::encs::*;
use super::refdec::*;
use super::drv::*;
use super::c01::put_prefix;

// params: 0 encoding, 1/2 range of symbolic byte count, 3 sink, 4 replacement, 5/6 first-byte shard,
//         7 prefix id, 8 BOM mode, 9 min capacity, 10 max capacity, 11 number of cuts (1 or 2),
//         12 allow an empty final call carrying `last`, 13 number of calls with an own symbolic capacity,
//         14 grow: after those calls the destination is large (their capacities may then be below the documented minimum)
harness!(se_h_c02_chunk, c02_chunk, {
    let e = param(0);
    let sink = param(3);
    let repl = param(4) != 0;
    let lo = param(5) as u8;
    let hi = param(6) as u8;
    let bom = param(8);
    let cmin = param(9);
    let cmax = param(10);
    let ncuts = param(11);
    let mut src = [0u8; 16];
    let mut len = put_prefix(param(7), &mut src);
    let n = sym_range(100, param(1), param(2));
    let mut i = 0;
    while i < n { src[len + i] = sym_u8(i as u32); i += 1; }
    if n > 0 { assume(src[len] >= lo && src[len] <= hi); }
    len += n;

    // whole: one call sequence, large sink
    let mut d1 = new_decoder(e, bom);
    let mut whole = Run::new(56);
    push(&mut d1, sink, repl, &src[..len], true, &mut whole);
    check(whole.finished, 1);

    // chunked: cuts c1 <= c2, per-call capacities in cmin..=cmax
    let c1 = sym_range(101, 0, len);
    let c2 = if ncuts >= 2 { sym_range(102, c1, len) } else { len };
    let empty_last = if param(12) != 0 { sym_range(103, 0, 1) } else { 0 };
    let mut d2 = new_decoder(e, bom);
    let mut parts = Run::new(cmin);
    parts.sym_caps(cmin, cmax, if param(13) == 0 { 3 } else { param(13) });
    // param 14: the first calls offer tiny destinations (below the documented minimum, down to empty: a call may make no progress),
    // then the caller grows the destination - the String::new() + reserve-on-OutputFull pattern
    if param(14) != 0 { parts.grow = true; parts.grow_calls = 2; parts.min_progress = false; }
    let last_in_data = empty_last == 0;
    push(&mut d2, sink, repl, &src[..c1], false, &mut parts);
    if ncuts >= 2 {
        push(&mut d2, sink, repl, &src[c1..c2], false, &mut parts);
        push(&mut d2, sink, repl, &src[c2..len], last_in_data, &mut parts);
    } else {
        push(&mut d2, sink, repl, &src[c1..len], last_in_data, &mut parts);
    }
    if !last_in_data { push(&mut d2, sink, repl, &src[len..len], true, &mut parts); }
    check(parts.finished, 2);
    check(parts.total_read == len, 3);
    check(whole.total_read == len, 4);
    same_log(&whole.log, &parts.log, 10);
    check(whole.had_errors == parts.had_errors, 5);
    check(d1.encoding() == d2.encoding(), 6);

    if parts.output_full_seen { reach(30); }
    if c1 > 0 && c2 > c1 && c2 < len { reach(31); }     // stream really cut twice
    if c1 == c2 && ncuts >= 2 { reach(32); }            // empty middle buffer
    if !last_in_data { reach(33); }                     // empty final call carrying `last`
    if whole.had_errors { reach(20); } else { reach(21); }
    reach(END);
});

// UTF-8 and UTF-16 output forms denote the same scalar sequence (single call sequence, both sinks).
// params: 0 encoding, 1/2 symbolic byte count, 4 replacement, 5/6 first-byte shard, 7 prefix
harness!(se_h_c02_forms, c02_forms, {
    let e = param(0);
    let repl = param(4) != 0;
    let lo = param(5) as u8;
    let hi = param(6) as u8;
    let mut src = [0u8; 16];
    let mut len = put_prefix(param(7), &mut src);
    let n = sym_range(100, param(1), param(2));
    let mut i = 0;
    while i < n { src[len + i] = sym_u8(i as u32); i += 1; }
    if n > 0 { assume(src[len] >= lo && src[len] <= hi); }
    len += n;
    let mut d16 = new_decoder(e, BOM_OFF);
    let mut r16 = Run::new(56);
    push(&mut d16, SK_U16, repl, &src[..len], true, &mut r16);
    let mut d8 = new_decoder(e, BOM_OFF);
    let mut r8 = Run::new(56);
    push(&mut d8, SK_U8, repl, &src[..len], true, &mut r8);
    // re-encode the UTF-16 log as UTF-8 bytes (pairing surrogates) and compare with the UTF-8 log
    let mut conv = Log::new();
    let mut k = 0;
    while k < r16.log.n {
        let ev = r16.log.ev[k];
        if ev.k == K_ERR { conv.push(K_ERR, ev.a, ev.b); k += 1; continue; }
        let u = ev.a;
        if u >= 0xD800 && u <= 0xDBFF {
            check(k + 1 < r16.log.n && r16.log.ev[k + 1].k == K_UNIT, 40);
            let l = r16.log.ev[k + 1].a;
            check(l >= 0xDC00 && l <= 0xDFFF, 41);
            conv.scalar8(0x10000 + ((u - 0xD800) << 10) + (l - 0xDC00));
            k += 2;
        } else {
            check(!(u >= 0xDC00 && u <= 0xDFFF), 42);
            conv.scalar8(u);
            k += 1;
        }
    }
    same_log(&conv, &r8.log, 50);
    check(r16.had_errors == r8.had_errors, 7);
    reach(END);
});
