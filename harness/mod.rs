// Harness modules for llsym.  This directory is copied into a scratch copy of the crate as
// src/verif_se/ and compiled only under --cfg verif_se (plus one --cfg verif_cNN per property).
#![allow(dead_code, unused_imports, unused_variables, unused_mut, unused_unsafe, unused_assignments)]
#![allow(clippy::all)]

macro_rules! harness {
    ($sym:ident, $f:ident, $body:block) => {
        pub fn $f() {
            crate::verif_se::se::force_scalar_utf8_validation();
            $body
        }
        #[unsafe(no_mangle)]
        pub extern "C" fn $sym() { $f() }
    };
}

pub mod se;
pub mod encs;
pub mod refs;
pub mod gen_tables;
pub mod refdec;
pub mod drv;
pub mod refenc;
pub mod edrv;

#[cfg(verif_selftest)] pub mod selftest;
#[cfg(verif_c18)] pub mod c18;
#[cfg(verif_c19)] pub mod c19;
#[cfg(verif_c20)] pub mod c20;

#[cfg(any(verif_c01, verif_c02, verif_c07, verif_c08, verif_c09, verif_c18, verif_c19, verif_c20))] pub mod c01;
#[cfg(verif_c02)] pub mod c02;
#[cfg(any(verif_c03, verif_c04, verif_c07, verif_c08, verif_c09, verif_c12, verif_c18, verif_c20))] pub mod c03;
#[cfg(verif_c04)] pub mod c04;
#[cfg(verif_c12)] pub mod c12;
#[cfg(verif_c07)] pub mod c07;
#[cfg(verif_c08)] pub mod c08;
#[cfg(verif_c09)] pub mod c09;
#[cfg(verif_c10)] pub mod c10;
#[cfg(verif_c11)] pub mod c11;
#[cfg(verif_c13)] pub mod c13;
#[cfg(verif_c14)] pub mod c14;
#[cfg(verif_c15)] pub mod c15;
#[cfg(verif_c16)] pub mod c16;

