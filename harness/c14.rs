// C14: validators return the exact length of the longest valid prefix.
use crate::*;
use super::se::*;
use super::refs;

const F_UTF8: usize = 0;
const F_ASCII: usize = 1;
const F_2022: usize = 2;
const F_UTF16: usize = 3;
const F_UTF8_LATIN1: usize = 4;
const F_STR_LATIN1: usize = 5;

fn real8(f: usize, b: &[u8]) -> usize {
    match f {
        F_UTF8 => Encoding::utf8_valid_up_to(b),
        F_ASCII => Encoding::ascii_valid_up_to(b),
        F_2022 => Encoding::iso_2022_jp_ascii_valid_up_to(b),
        F_UTF8_LATIN1 => mem::utf8_latin1_up_to(b),
        _ => mem::str_latin1_up_to(unsafe { core::str::from_utf8_unchecked(b) }),
    }
}

fn ref8(f: usize, b: &[u8]) -> usize {
    match f {
        F_UTF8 => refs::utf8_valid_up_to(b),
        F_ASCII => refs::ascii_up_to(b),
        F_2022 => refs::iso2022jp_ascii_up_to(b),
        _ => refs::utf8_latin1_up_to(b),
    }
}

fn check8(f: usize, b: &[u8]) {
    if f == F_STR_LATIN1 {
        // precondition of the &str argument: valid UTF-8
        assume(refs::utf8_valid_up_to(b) == b.len());
    }
    let r = real8(f, b);
    let e = ref8(f, b);
    check(r == e, 1);
    check(r <= b.len(), 2);
    if f == F_UTF8 {
        // the property's own oracle: the standard library
        let s = match core::str::from_utf8(b) { Ok(_) => b.len(), Err(e) => e.valid_up_to() };
        check(r == s, 3);
    }
    if r == b.len() { reach(10); } else { reach(11); }
}

fn check16(b: &[u16]) {
    let r = mem::utf16_valid_up_to(b);
    let e = refs::utf16_valid_up_to(b);
    check(r == e, 1);
    check(r <= b.len(), 2);
    if r == b.len() { reach(10); } else { reach(11); }
}

// (a) fully symbolic buffer of length 0..=N   params: 0 = function, 1 = N (<= 6), 2 = start offset in the backing array
harness!(se_h_c14_small, c14_small, {
    let f = param(0);
    let nmax = param(1);
    let off = param(2);
    let n = sym_range(100, 0, nmax);
    if f == F_UTF16 {
        let mut buf = [0u16; 24];
        for i in 0..n { buf[off + i] = sym_u16(i as u32); }
        check16(&buf[off..off + n]);
    } else {
        let mut buf = [0u8; 24];
        for i in 0..n { buf[off + i] = sym_u8(i as u32); }
        check8(f, &buf[off..off + n]);
    }
    reach(END);
});

fn fill8(buf: &mut [u8], class: usize, start: usize, nbytes: usize) {
    // nbytes bytes of the repeated filler character, possibly ending in a truncated character
    let pat: &[u8] = match class { 0 => b"a", 1 => &[0xC3, 0xA4], 2 => &[0xE2, 0x82, 0xAC], 3 => &[0xF0, 0x9F, 0x98, 0x80], _ => &[0x80] };
    for i in 0..nbytes { buf[start + i] = pat[i % pat.len()]; }
}

fn fill16(buf: &mut [u16], class: usize, start: usize, n: usize) {
    let pat: &[u16] = match class { 0 => &[0x61], 1 => &[0x3042], 2 => &[0xD83D, 0xDE00], 3 => &[0x20], _ => &[0xE4] };
    for i in 0..n { buf[start + i] = pat[i % pat.len()]; }
}

// (b) window of W symbolic units inside concrete valid filler.
// params: 0 = function, 1 = filler class, 2 = W, 3/4 = range of the number of whole filler characters before
// the window, 5/6 = range of the number of filler units after it (may end in a truncated character),
// 7 = start offset of the slice in its backing array
harness!(se_h_c14_window, c14_window, {
    let f = param(0);
    let class = param(1);
    let w = param(2);
    let k = sym_range(100, param(3), param(4));
    let s = sym_range(101, param(5), param(6));
    let off = param(7);
    if f == F_UTF16 {
        let clen = if class == 2 { 2 } else { 1 };
        let mut buf = [0u16; 320];
        let p = k * clen;
        fill16(&mut buf, class, off, p);
        for i in 0..w { buf[off + p + i] = sym_u16(i as u32); }
        fill16(&mut buf, class, off + p + w, s);
        check16(&buf[off..off + p + w + s]);
    } else {
        let clen = match class { 0 => 1, 1 => 2, 2 => 3, _ => 4 };
        let mut buf = [0u8; 320];
        let p = k * clen;
        fill8(&mut buf, class, off, p);
        for i in 0..w { buf[off + p + i] = sym_u8(i as u32); }
        fill8(&mut buf, class, off + p + w, s);
        check8(f, &buf[off..off + p + w + s]);
    }
    reach(END);
});
