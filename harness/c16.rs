// C16: mem classification and bidi checks equal their per-character definitions.
use crate::*;
use crate::mem::*;
use super::se::*;
use super::refs;

/// the documented right-to-left block list (documentation of mem::is_char_bidi)
pub fn ref_char_bidi(c: u32) -> bool {
    c == 0x200F || c == 0x202B || c == 0x202E || c == 0x2067
        || (c >= 0x0590 && c <= 0x08FF)
        || (c >= 0xFB1D && c <= 0xFDFF)
        || (c >= 0xFE70 && c <= 0xFEFE)
        || (c >= 0x10800 && c <= 0x10FFF)
        || (c >= 0x1E800 && c <= 0x1EFFF)
}

/// the same list for a UTF-16 code unit: supplementary blocks are identified by their high surrogates
pub fn ref_unit_bidi(u: u32) -> bool {
    (u < 0xD800 || u > 0xDFFF) && ref_char_bidi(u) || u == 0xD802 || u == 0xD803 || u == 0xD83A || u == 0xD83B
}

// the two predicates on a fully symbolic scalar value / code unit
harness!(se_h_c16_scalar, c16_scalar, {
    let c = sym_u32(0);
    assume(c <= 0x10FFFF && !(c >= 0xD800 && c <= 0xDFFF));
    let ch = unsafe { core::char::from_u32_unchecked(c) };
    check(is_char_bidi(ch) == ref_char_bidi(c), 1);
    let u = sym_u16(1);
    check(is_utf16_code_unit_bidi(u) == ref_unit_bidi(u as u32), 2);
    if ref_char_bidi(c) { reach(20); } else { reach(21); }
    reach(END);
});

fn l1b(x: Latin1Bidi) -> u32 { match x { Latin1Bidi::Latin1 => 0, Latin1Bidi::LeftToRight => 1, Latin1Bidi::Bidi => 2 } }

/// per-character definitions over a byte buffer: (valid UTF-8, all ASCII, all <= U+00FF, some RTL character)
fn classify8(b: &[u8]) -> (bool, bool, bool, bool) {
    let mut i = 0usize; let mut ascii = true; let mut latin1 = true; let mut rtl = false;
    while i < b.len() {
        let n = refs::utf8_seq_len(&b[i..]);
        if n == 0 { return (false, false, false, rtl); }
        let c = refs::utf8_scalar(&b[i..], n);
        if c >= 0x80 { ascii = false; }
        if c > 0xFF { latin1 = false; }
        if ref_char_bidi(c) { rtl = true; }
        i += n;
    }
    (true, ascii, latin1, rtl)
}

fn check8(b: &[u8], is_str: bool) {
    let (valid, ascii, latin1, rtl) = classify8(b);
    // ASCII-ness is defined on units, not characters
    let mut all_ascii = true; let mut i = 0; while i < b.len() { if b[i] >= 0x80 { all_ascii = false; } i += 1; }
    check(is_ascii(b) == all_ascii, 1);
    if is_str {
        assume(valid);
        let s = unsafe { core::str::from_utf8_unchecked(b) };
        check(is_str_latin1(s) == latin1, 2);
        check(is_str_bidi(s) == rtl, 3);
        let expect = if latin1 { 0 } else if rtl { 2 } else { 1 };
        check(l1b(check_str_for_latin1_and_bidi(s)) == expect, 4);
    } else {
        check(is_utf8_latin1(b) == (valid && latin1), 5);
        // any invalid UTF-8 counts as bidi
        let bidi = !valid || rtl;
        check(is_utf8_bidi(b) == bidi, 6);
        let expect = if valid && latin1 { 0 } else if bidi { 2 } else { 1 };
        check(l1b(check_utf8_for_latin1_and_bidi(b)) == expect, 7);
    }
    if rtl { reach(20); } else { reach(21); }
    if !valid { reach(22); }
    if latin1 && valid && !all_ascii { reach(23); }
}

fn check16(b: &[u16]) {
    let mut basic = true; let mut latin1 = true; let mut rtl = false; let mut i = 0;
    while i < b.len() {
        let u = b[i] as u32;
        if u >= 0x80 { basic = false; }
        if u > 0xFF { latin1 = false; }
        if ref_unit_bidi(u) { rtl = true; }
        i += 1;
    }
    check(is_basic_latin(b) == basic, 8);
    check(is_utf16_latin1(b) == latin1, 9);
    check(is_utf16_bidi(b) == rtl, 10);
    let expect = if latin1 { 0 } else if rtl { 2 } else { 1 };
    check(l1b(check_utf16_for_latin1_and_bidi(b)) == expect, 11);
    if rtl { reach(20); } else { reach(21); }
    if latin1 && !basic { reach(23); }
}

fn fill8(buf: &mut [u8], class: usize, start: usize, nbytes: usize) {
    let pat: &[u8] = match class { 0 => b"a", 1 => &[0xC3, 0xA4], 2 => &[0xE2, 0x82, 0xAC], _ => &[0xF0, 0x9F, 0x98, 0x80] };
    for i in 0..nbytes { buf[start + i] = pat[i % pat.len()]; }
}
fn fill16(buf: &mut [u16], class: usize, start: usize, n: usize) {
    let pat: &[u16] = match class { 0 => &[0x61], 1 => &[0xE4], 2 => &[0x20AC], _ => &[0xD83D, 0xDE00] };
    for i in 0..n { buf[start + i] = pat[i % pat.len()]; }
}

// window of W symbolic units after k whole filler characters and before s filler units.
// params: 0 kind (0 = potentially invalid UTF-8, 1 = str, 2 = UTF-16), 1 filler class (0 ASCII, 1 Latin1, 2 non-Latin1 BMP, 3 astral),
//         2 W, 3/4 range of k, 5/6 range of s, 7 start offset in the backing array
harness!(se_h_c16_window, c16_window, {
    let kind = param(0);
    let class = param(1);
    let w = param(2);
    let k = sym_range(100, param(3), param(4));
    let s = sym_range(101, param(5), param(6));
    let off = param(7);
    if kind == 2 {
        let clen = if class == 3 { 2 } else { 1 };
        let mut buf = [0u16; 320];
        let p = k * clen;
        fill16(&mut buf, class, off, p);
        for i in 0..w { buf[off + p + i] = sym_u16(i as u32); }
        fill16(&mut buf, class, off + p + w, s * clen);
        check16(&buf[off..off + p + w + s * clen]);
    } else {
        let clen = class + 1;
        let mut buf = [0u8; 320];
        let p = k * clen;
        fill8(&mut buf, class, off, p);
        for i in 0..w { buf[off + p + i] = sym_u8(i as u32); }
        fill8(&mut buf, class, off + p + w, s * clen);
        check8(&buf[off..off + p + w + s * clen], kind == 1);
    }
    reach(END);
});
