// C13: label resolution implements the Standard's "get an encoding" for all byte strings.
use crate::*;
use super::se::*;
use super::encs::*;

/// the Standard's algorithm: strip leading and trailing ASCII whitespace (TAB, LF, FF, CR, SPACE), ASCII-lowercase,
/// compare with every label.  Linear scan over the 228 label/encoding pairs of the repository's generated test list
/// (src/test_labels_names.rs), regenerated into REF_LABELS by /verif/tools/gen_ref_index.py.
fn is_ws(b: u8) -> bool { b == 0x09 || b == 0x0A || b == 0x0C || b == 0x0D || b == 0x20 }

fn ref_for_label(l: &[u8]) -> Option<&'static Encoding> {
    let mut a = 0usize; let mut z = l.len();
    while a < z && is_ws(l[a]) { a += 1; }
    while z > a && is_ws(l[z - 1]) { z -= 1; }
    let core_ = &l[a..z];
    let mut k = 0usize;
    while k < super::gen_tables::REF_LABELS.len() {
        let lab = super::gen_tables::REF_LABELS[k].0.as_bytes();
        if lab.len() == core_.len() {
            let mut same = true; let mut i = 0;
            while i < lab.len() {
                let c = core_[i];
                let lc = if c >= 0x41 && c <= 0x5A { c + 0x20 } else { c };
                if lc != lab[i] { same = false; break; }
                i += 1;
            }
            if same { return Some(super::gen_tables::REF_LABELS[k].1); }
        }
        k += 1;
    }
    None
}

fn compare(l: &[u8]) {
    let r = Encoding::for_label(l);
    let e = ref_for_label(l);
    match (r, e) {
        (None, None) => { reach(21); }
        (Some(x), Some(y)) => { check(x == y, 1); reach(20); }
        _ => { check(false, 2); }
    }
    let nr = Encoding::for_label_no_replacement(l);
    match e {
        Some(y) if y != REPLACEMENT => { check(nr == Some(y), 3); }
        _ => { check(nr.is_none(), 4); }
    }
}

// (a) every byte string of length <= N, all 256 values     params: 1 = N
harness!(se_h_c13_short, c13_short, {
    let n = sym_range(100, 0, param(1));
    let mut b = [0u8; 8];
    let mut i = 0;
    while i < n { b[i] = sym_u8(i as u32); i += 1; }
    compare(&b[..n]);
    reach(END);
});

// (c): a real label (index param 0) with symbolic padding bytes (all 256 values): 0..=param 2 before, 0..=param 3 after:
// non-whitespace padding must yield None unless the result happens to be another label.
harness!(se_h_c13_pad, c13_pad, {
    let lab = super::gen_tables::REF_LABELS[param(0)].0.as_bytes();
    let pb = sym_range(100, 0, param(2));
    let pa = sym_range(101, 0, param(3));
    let mut b = [0u8; 40];
    let mut n = 0usize;
    let mut i = 0;
    while i < pb { b[n] = sym_u8(10 + i as u32); n += 1; i += 1; }
    i = 0;
    while i < lab.len() { b[n] = lab[i]; n += 1; i += 1; }
    i = 0;
    while i < pa { b[n] = sym_u8(20 + i as u32); n += 1; i += 1; }
    compare(&b[..n]);
    reach(END);
});

// (d): a real label with one symbolic position whose byte is substituted by a symbolic byte (which also covers every
// single case flip), deleted, or preceded by an inserted symbolic byte.   params: 0 label index, 1 mode (0 substitute, 1 delete, 2 insert)
harness!(se_h_c13_near, c13_near, {
    let lab = super::gen_tables::REF_LABELS[param(0)].0.as_bytes();
    let mode = param(1);
    let mut b = [0u8; 40];
    let mut n = 0usize;
    let pos = sym_range(102, 0, if mode == 2 { lab.len() } else { lab.len() - 1 });
    let x = sym_u8(0);
    let mut i = 0;
    while i < lab.len() {
        if i == pos {
            if mode == 0 { b[n] = x; n += 1; }
            else if mode == 2 { b[n] = x; n += 1; b[n] = lab[i]; n += 1; }
        } else { b[n] = lab[i]; n += 1; }
        i += 1;
    }
    if mode == 2 && pos == lab.len() { b[n] = x; n += 1; }
    compare(&b[..n]);
    reach(END);
});

// every encoding's name() is itself a label that resolves to that encoding (concrete, 40 encodings); plus labels of
// length 19 and 20 around the LONGEST_LABEL_LENGTH cut-off with symbolic last bytes
harness!(se_h_c13_names, c13_names, {
    let mut k = 0;
    while k < 40 {
        let e = enc(k);
        check(Encoding::for_label(e.name().as_bytes()) == Some(e), 5);
        k += 1;
    }
    // over-long: the longest label plus one symbolic byte must not resolve unless that byte is whitespace
    let long = b"cseucpkdfmtjapanese";
    let mut b = [0u8; 24];
    let mut i = 0; while i < long.len() { b[i] = long[i]; i += 1; }
    b[long.len()] = sym_u8(0);
    b[long.len() + 1] = sym_u8(1);
    compare(&b[..long.len() + 2]);
    reach(END);
});
