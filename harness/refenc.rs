// Reference encoders: transcriptions of the encoder algorithms of the WHATWG Encoding Standard, one scalar
// value at a time.  Output goes to a Log: K_UNIT events are output bytes, a K_ERR event (a = code point) is
// an "error with code point" (unmappable).  Pointer selection ("index pointer", "index Big5 pointer",
// "index Shift_JIS pointer") is precomputed from the forward indexes by /verif/tools/gen_ref_index.py into the
// INV_* tables (value = pointer + 1, 0 = none).
use crate::*;
use super::encs::*;
use super::refdec::*;
use super::gen_tables::*;

pub const ST_ASCII: u8 = 0;
pub const ST_ROMAN: u8 = 1;
pub const ST_JIS0208: u8 = 2;

/// the encoding whose encoder is used: UTF-16LE/BE and replacement encode as UTF-8 ("get an output encoding")
pub fn output_index(e: usize) -> usize {
    if e == E_UTF_16BE || e == E_UTF_16LE || e == E_REPLACEMENT { E_UTF_8 } else { e }
}

fn inv(t: &[u16; 65536], c: u32) -> usize {
    if c < 0x10000 { t[c as usize] as usize } else { 0 }
}

/// GB18030-2022: rows of the table in the Standard's gb18030 encoder (code point -> two bytes)
const GB2022: [(u32, u8, u8); 18] = [
    (0xE78D, 0xA6, 0xD9), (0xE78E, 0xA6, 0xDA), (0xE78F, 0xA6, 0xDB), (0xE790, 0xA6, 0xDC), (0xE791, 0xA6, 0xDD),
    (0xE792, 0xA6, 0xDE), (0xE793, 0xA6, 0xDF), (0xE794, 0xA6, 0xEC), (0xE795, 0xA6, 0xED), (0xE796, 0xA6, 0xF3),
    (0xE81E, 0xFE, 0x59), (0xE826, 0xFE, 0x61), (0xE82B, 0xFE, 0x66), (0xE82C, 0xFE, 0x67), (0xE832, 0xFE, 0x6D),
    (0xE843, 0xFE, 0x7E), (0xE854, 0xFE, 0x90), (0xE864, 0xFE, 0xA0),
];

/// "index gb18030 ranges pointer" (ranges data: the crate's table, trusted; see refdec.rs)
pub fn gb18030_ranges_pointer(c: u32) -> u32 {
    if c == 0xE7C7 { return 7457; }
    if c >= 0x10000 { return 189000 + c - 0x10000; }
    let mut k = 0usize;
    let mut off = 0u32; let mut po = 0u32;
    while k < crate::data::GB18030_RANGE_OFFSETS.len() {
        let o = crate::data::GB18030_RANGE_OFFSETS[k] as u32;
        if o <= c { off = o; po = crate::data::GB18030_RANGE_POINTERS[k] as u32; } else { break; }
        k += 1;
    }
    po + c - off
}

/// Encode one scalar value.  `st` is the ISO-2022-JP encoder state (unused otherwise).
pub fn ref_encode_char(e: usize, st: &mut u8, c: u32, out: &mut Log) {
    match e {
        E_UTF_8 => out.scalar8(c),
        E_X_USER_DEFINED => {
            if c < 0x80 { out.unit(c); }
            else if c >= 0xF780 && c <= 0xF7FF { out.unit(c - 0xF780 + 0x80); }
            else { out.push(K_ERR, c, 0); }
        }
        E_BIG5 => {
            if c < 0x80 { out.unit(c); return; }
            let p1 = if c < 0x10000 { INV_BIG5_BMP[c as usize] as usize }
                     else if c >= 0x20000 && c < 0x30000 { INV_BIG5_P2[(c - 0x20000) as usize] as usize } else { 0 };
            if p1 == 0 { out.push(K_ERR, c, 0); return; }
            let p = p1 - 1;
            let lead = p / 157 + 0x81;
            let trail = p % 157;
            let offset = if trail < 0x3F { 0x40 } else { 0x62 };
            out.unit(lead as u32); out.unit((trail + offset) as u32);
        }
        E_EUC_KR => {
            if c < 0x80 { out.unit(c); return; }
            let p1 = inv(&INV_EUC_KR, c);
            if p1 == 0 { out.push(K_ERR, c, 0); return; }
            let p = p1 - 1;
            out.unit((p / 190 + 0x81) as u32); out.unit((p % 190 + 0x41) as u32);
        }
        E_SHIFT_JIS => {
            let mut c = c;
            if c < 0x80 || c == 0x80 { out.unit(c); return; }
            if c == 0xA5 { out.unit(0x5C); return; }
            if c == 0x203E { out.unit(0x7E); return; }
            if c >= 0xFF61 && c <= 0xFF9F { out.unit(c - 0xFF61 + 0xA1); return; }
            if c == 0x2212 { c = 0xFF0D; }
            let p1 = inv(&INV_SJIS, c);
            if p1 == 0 { out.push(K_ERR, c, 0); return; }
            let p = p1 - 1;
            let lead = p / 188;
            let lead_offset = if lead < 0x1F { 0x81 } else { 0xC1 };
            let trail = p % 188;
            let offset = if trail < 0x3F { 0x40 } else { 0x41 };
            out.unit((lead + lead_offset) as u32); out.unit((trail + offset) as u32);
        }
        E_EUC_JP => {
            let mut c = c;
            if c < 0x80 { out.unit(c); return; }
            if c == 0xA5 { out.unit(0x5C); return; }
            if c == 0x203E { out.unit(0x7E); return; }
            if c >= 0xFF61 && c <= 0xFF9F { out.unit(0x8E); out.unit(c - 0xFF61 + 0xA1); return; }
            if c == 0x2212 { c = 0xFF0D; }
            let p1 = inv(&INV_JIS0208, c);
            if p1 == 0 { out.push(K_ERR, c, 0); return; }
            let p = p1 - 1;
            out.unit((p / 94 + 0xA1) as u32); out.unit((p % 94 + 0xA1) as u32);
        }
        E_GBK | E_GB18030 => {
            let gbk = e == E_GBK;
            if c < 0x80 { out.unit(c); return; }
            if c == 0xE5E5 { out.push(K_ERR, c, 0); return; }
            if gbk && c == 0x20AC { out.unit(0x80); return; }
            let mut k = 0;
            while k < GB2022.len() {
                if GB2022[k].0 == c { out.unit(GB2022[k].1 as u32); out.unit(GB2022[k].2 as u32); return; }
                k += 1;
            }
            let p1 = inv(&INV_GB18030, c);
            if p1 != 0 {
                let p = p1 - 1;
                let lead = p / 190 + 0x81;
                let trail = p % 190;
                let offset = if trail < 0x3F { 0x40 } else { 0x41 };
                out.unit(lead as u32); out.unit((trail + offset) as u32);
                return;
            }
            if gbk { out.push(K_ERR, c, 0); return; }
            let mut p = gb18030_ranges_pointer(c);
            let b1 = p / (10 * 126 * 10); p %= 10 * 126 * 10;
            let b2 = p / (10 * 126); p %= 10 * 126;
            let b3 = p / 10;
            let b4 = p % 10;
            out.unit(b1 + 0x81); out.unit(b2 + 0x30); out.unit(b3 + 0x81); out.unit(b4 + 0x30);
        }
        E_ISO_2022_JP => {
            let mut c = c;
            // the algorithm may emit an escape and then reprocess the same code point ("restore code point")
            loop {
                if (*st == ST_ASCII || *st == ST_ROMAN) && (c == 0x0E || c == 0x0F || c == 0x1B) { out.push(K_ERR, 0xFFFD, 0); return; }
                if *st == ST_ASCII && c < 0x80 { out.unit(c); return; }
                if *st == ST_ROMAN && ((c < 0x80 && c != 0x5C && c != 0x7E) || c == 0xA5 || c == 0x203E) {
                    if c < 0x80 { out.unit(c); } else if c == 0xA5 { out.unit(0x5C); } else { out.unit(0x7E); }
                    return;
                }
                if c < 0x80 && *st != ST_ASCII { *st = ST_ASCII; out.unit(0x1B); out.unit(0x28); out.unit(0x42); continue; }
                if (c == 0xA5 || c == 0x203E) && *st != ST_ROMAN { *st = ST_ROMAN; out.unit(0x1B); out.unit(0x28); out.unit(0x4A); continue; }
                if c == 0x2212 { c = 0xFF0D; }
                if c >= 0xFF61 && c <= 0xFF9F { c = REF_KATAKANA[(c - 0xFF61) as usize] as u32; }
                let p1 = inv(&INV_JIS0208, c);
                if p1 == 0 {
                    if *st == ST_JIS0208 { *st = ST_ASCII; out.unit(0x1B); out.unit(0x28); out.unit(0x42); continue; }
                    out.push(K_ERR, c, 0);
                    return;
                }
                if *st != ST_JIS0208 { *st = ST_JIS0208; out.unit(0x1B); out.unit(0x24); out.unit(0x42); continue; }
                let p = p1 - 1;
                out.unit((p / 94 + 0x21) as u32); out.unit((p % 94 + 0x21) as u32);
                return;
            }
        }
        _ => {
            // single-byte: first pointer in the index whose code point is c (index data: the crate's table, trusted)
            if c < 0x80 { out.unit(c); return; }
            let table: &'static [u16; 128] = match enc(e).variant {
                VariantEncoding::SingleByte(t, _, _, _) => t,
                _ => { super::se::check(false, 901); return; }
            };
            if c < 0x10000 {
                let mut k = 0usize;
                while k < 128 {
                    if table[k] as u32 == c && c != 0 { out.unit(0x80 + k as u32); return; }
                    k += 1;
                }
            }
            out.push(K_ERR, c, 0);
        }
    }
}

/// end of stream: ISO-2022-JP returns to the ASCII state
pub fn ref_encode_eof(e: usize, st: &mut u8, out: &mut Log) {
    if e == E_ISO_2022_JP && *st != ST_ASCII { *st = ST_ASCII; out.unit(0x1B); out.unit(0x28); out.unit(0x42); }
}

/// decimal numeric character reference for the with-replacement methods
pub fn push_ncr(c: u32, out: &mut Log) {
    out.unit(0x26); out.unit(0x23);
    let mut digits = [0u8; 8];
    let mut n = 0usize;
    let mut v = c;
    loop { digits[n] = (v % 10) as u8; n += 1; v /= 10; if v == 0 { break; } }
    while n > 0 { n -= 1; out.unit(0x30 + digits[n] as u32); }
    out.unit(0x3B);
}
