use crate::*;

pub static ENCS: [&'static Encoding; 40] = [
    BIG5, EUC_JP, EUC_KR, GBK, IBM866, ISO_2022_JP, ISO_8859_10, ISO_8859_13, ISO_8859_14, ISO_8859_15,
    ISO_8859_16, ISO_8859_2, ISO_8859_3, ISO_8859_4, ISO_8859_5, ISO_8859_6, ISO_8859_7, ISO_8859_8,
    ISO_8859_8_I, KOI8_R, KOI8_U, SHIFT_JIS, UTF_16BE, UTF_16LE, UTF_8, GB18030, MACINTOSH, REPLACEMENT,
    WINDOWS_1250, WINDOWS_1251, WINDOWS_1252, WINDOWS_1253, WINDOWS_1254, WINDOWS_1255, WINDOWS_1256,
    WINDOWS_1257, WINDOWS_1258, WINDOWS_874, X_MAC_CYRILLIC, X_USER_DEFINED,
];

pub const E_BIG5: usize = 0;
pub const E_EUC_JP: usize = 1;
pub const E_EUC_KR: usize = 2;
pub const E_GBK: usize = 3;
pub const E_ISO_2022_JP: usize = 5;
pub const E_SHIFT_JIS: usize = 21;
pub const E_UTF_16BE: usize = 22;
pub const E_UTF_16LE: usize = 23;
pub const E_UTF_8: usize = 24;
pub const E_GB18030: usize = 25;
pub const E_REPLACEMENT: usize = 27;
pub const E_X_USER_DEFINED: usize = 39;

#[inline(never)]
pub fn enc(i: usize) -> &'static Encoding { ENCS[i] }

pub fn is_single_byte_idx(i: usize) -> bool {
    !matches!(i, E_BIG5 | E_EUC_JP | E_EUC_KR | E_GBK | E_ISO_2022_JP | E_SHIFT_JIS | E_UTF_16BE | E_UTF_16LE | E_UTF_8 | E_GB18030 | E_REPLACEMENT | E_X_USER_DEFINED)
}
