#!/bin/bash
# usage: validate_seeded.sh <property id> <dir with patch.diff, seeded_demo.rs, notes.txt> [name]
# Confirms in a fresh scratch worktree of /repo (outside /repo and /verif) that the change applies, the pinned suite
# passes with it, the demonstration fails with it and passes without it; on success stores it under /verif/seeded/<name>/.
# The scratch worktree is left in place with the change applied (path printed) so that checks can be run against it with
# VERIF_REPO=<path>; remove it afterwards with: git -C /repo worktree remove --force <path>
set -u
ID=$1; SRC=$2; NAME=${3:-$1}
WT=/tmp/val-$NAME
export CARGO_NET_OFFLINE=true
git -C /repo worktree remove --force $WT >/dev/null 2>&1; rm -rf $WT
git -C /repo worktree add -q --detach $WT HEAD || exit 9
cd $WT
git apply --check $SRC/patch.diff || { echo "RESULT $NAME: patch does not apply"; exit 1; }
git apply $SRC/patch.diff
FILES=$(git diff --stat -- . | tail -1)
SUITE=$(cargo test --workspace --no-fail-fast --offline 2>&1 | grep -E "^test result" | tr '\n' ' ')
echo "$SUITE" | grep -q "FAILED\|[1-9][0-9]* failed" && { echo "RESULT $NAME: existing suite FAILS with the change: $SUITE"; exit 1; }
NRES=$(echo "$SUITE" | grep -o "test result" | wc -l)
[ "$NRES" -ge 4 ] || { echo "RESULT $NAME: suite did not run completely: $SUITE"; exit 1; }
cp $SRC/seeded_demo.rs tests/seeded_demo.rs
WITH=$(cargo test --offline ${DEMO_FEATURES:+--features $DEMO_FEATURES} --test seeded_demo 2>&1 | grep -E "^test result|process abort|SIGABRT|SIGSEGV" | tr '\n' ' ')
# a demonstration that aborts the test process (e.g. an unsafe-precondition check in the debug profile) prints no result line
echo "$WITH" | grep -q "SIGABRT\|SIGSEGV\|process abort" && WITH="test result: FAILED (test process aborted: $WITH)"
git apply -R $SRC/patch.diff
WITHOUT=$(cargo test --offline ${DEMO_FEATURES:+--features $DEMO_FEATURES} --test seeded_demo 2>&1 | grep -E "^test result" | tr '\n' ' ')
git apply $SRC/patch.diff
rm -f tests/seeded_demo.rs
echo "  suite with change:   $SUITE"
echo "  demo with change:    $WITH"
echo "  demo without change: $WITHOUT"
if echo "$WITH" | grep -q "FAILED" && echo "$WITHOUT" | grep -q "test result: ok" && ! echo "$WITHOUT" | grep -q FAILED; then
  mkdir -p /verif/seeded/$NAME
  cp $SRC/patch.diff /verif/seeded/$NAME/patch.diff
  cp $SRC/seeded_demo.rs /verif/seeded/$NAME/seeded_demo.rs
  cp $SRC/notes.txt /verif/seeded/$NAME/author_notes.txt 2>/dev/null
  printf '%s\n' "$FILES" > /verif/seeded/$NAME/.files
  printf '%s\n%s\n%s\n' "$SUITE" "$WITH" "$WITHOUT" > /verif/seeded/$NAME/.runs
  echo "RESULT $NAME: CONFIRMED (worktree with the change applied: $WT)"
else
  echo "RESULT $NAME: NOT confirmed"; exit 1
fi
