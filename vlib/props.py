"""Per-property job tables: which harness entry points are explored with which concrete parameters, what
each tier bounds, which witnesses must be reached, and the text that goes into the evidence."""
import random

ENGINE_ASSUMPTIONS = [
    "rustc/LLVM: the whole-program LLVM IR (release profile, opt-level 3, lto=fat, panic=abort, loop/SLP vectorisers off) is taken as the meaning of the source",
    "z3 4.x/5.1 answers are trusted (any 'unknown' makes the run inconclusive)",
    "llsym (the executor in /verif/llsym) is trusted; guarded by the concrete differential self-test (native vs. interpreted transcripts) and by native replay of every counterexample",
    "allocation never fails (malloc model returns a fresh object); x86_64 little-endian only",
    "core_detect::detect_and_initialize is stubbed to 'no AVX2, no SSE4.2' so the crate's scalar UTF-8 validator also runs for inputs >= 64 bytes; the simdutf8 kernels are outside the claim",
    "default feature set (the 'std' feature only removes #![no_std]); simd-accel build is outside the claim",
]

PROPS = {}

ENC_NAMES = ["Big5", "EUC-JP", "EUC-KR", "GBK", "IBM866", "ISO-2022-JP", "ISO-8859-10", "ISO-8859-13", "ISO-8859-14",
             "ISO-8859-15", "ISO-8859-16", "ISO-8859-2", "ISO-8859-3", "ISO-8859-4", "ISO-8859-5", "ISO-8859-6",
             "ISO-8859-7", "ISO-8859-8", "ISO-8859-8-I", "KOI8-R", "KOI8-U", "Shift_JIS", "UTF-16BE", "UTF-16LE", "UTF-8",
             "gb18030", "macintosh", "replacement", "windows-1250", "windows-1251", "windows-1252", "windows-1253",
             "windows-1254", "windows-1255", "windows-1256", "windows-1257", "windows-1258", "windows-874",
             "x-mac-cyrillic", "x-user-defined"]
E = {n: i for i, n in enumerate(ENC_NAMES)}
MULTI = [E[n] for n in ("Big5", "EUC-JP", "EUC-KR", "GBK", "ISO-2022-JP", "Shift_JIS", "UTF-16BE", "UTF-16LE", "UTF-8", "gb18030",
                        "replacement", "x-user-defined")]
SINGLE = [i for i in range(40) if i not in MULTI]


HOT_LABELS = ("behind BOM", "BOM sniffing", "BOM removal", "regime=E", "then large", "one symbolic byte, escape", "every capacity", "a concrete",
              "first=F0..F4", "around 2^", "query right after", "state after escape prefix", "below the documented minimum", "mode=sniff",
              "U+13000", "U+13040", "U+103C0", "U+103F0", "U+10FFC0", "U+10FFF0", "U+03E0", "U+2708", "U+18698", "U+F4238", "U+0400", "U+2100",
              "neighbours=2,", "neighbours=8,", "nb=2,", "nb=8,", "nb=5,1", "debug-assertions build", "fast-legacy-encode] Big5", "prefix=3 ", "prefix=13 ")


def J(harness, params=None, **kw):
    d = dict(harness=harness, params=params or {})
    d.update(kw)
    # scheduling only: the hanzi / hangul windows of the encoder jobs are the longest jobs of their checks (the crate's
    # lookups scan thousands of table entries per candidate value); start them first instead of leaving them as the tail
    if "small_index_fork" in kw and d["params"].get(4) in (0x4E00, 0xAC00) and not d["params"].get(3):
        d["weight"] = 50
    # priority 0 (started first when a tier has a wall budget): the shape families that exist because a seeded change or a genuine
    # defect was missed without them, and the lead bytes that select their own state-machine arm
    lab = d.get("label", "")
    if "prio" not in d:
        hot = any(t in lab for t in HOT_LABELS)
        if not hot and "first=" in lab and isinstance(d["params"].get(0), int) and 0 <= d["params"][0] < 40 and ENC_NAMES[d["params"][0]] in SPECIAL_LEADS:
            lo, hi = d["params"].get(5, -1), d["params"].get(6, -1)
            hot = any(lo <= b <= hi for b in SPECIAL_LEADS[ENC_NAMES[d["params"][0]]]) and hi - lo < 64
        d["prio"] = 0 if hot else 1
    # the shard of complete four-byte UTF-8 sequences (decoder harnesses: params 1/2 = byte count range, 5/6 = first-byte range):
    # exactly four symbolic bytes - the shorter streams with these leads are in the N <= 3 shards
    if d["params"].get(5) == 0xF0 and d["params"].get(6) == 0xF4 and d["params"].get(2) == 4 and d["params"].get(1) == 1:
        d["params"][1] = 4
        d["weight"] = 60
    return d


# ----------------------------------------------------------------------------------------------- SELFTEST
def selftest_jobs(tier, seed):
    return [J("se_h_selftest_nop", {}, label="pipeline self-test: one symbolic byte through the real windows-1252 decoder", need=[9999, 1, 2])]


PROPS["SELFTEST"] = dict(cfgs=["verif_selftest"], level="other", jobs=selftest_jobs, evidence=False, explanation="",
                         bounds="", assumptions=[])


# ----------------------------------------------------------------------------------------------- C14
def c14_jobs(tier, seed):
    jl = []
    fnames = ["utf8_valid_up_to", "ascii_valid_up_to", "iso_2022_jp_ascii_valid_up_to", "utf16_valid_up_to",
              "utf8_latin1_up_to", "str_latin1_up_to"]
    nmax = 5 if tier == "quick" else 6
    for f in range(6):
        n = nmax if f in (0, 4, 5) else min(nmax, 4) + (1 if tier == "thorough" else 0)
        for off in ((0, 3) if tier == "quick" else (0, 1, 3, 7)):
            jl.append(J("se_h_c14_small", {0: f, 1: n, 2: off}, label="%s fully symbolic len<=%d off=%d" % (fnames[f], n, off),
                        need=[9999, 10, 11], weight=5))
    # window in filler: number of prefix characters k, suffix units s
    rnd = random.Random(seed)
    if tier == "quick":
        kranges = [(0, 6), (7, 13), (14, 18)]      # every phase of the 16-unit stride and the wrap into the second stride
        sranges = [(0, 5)]
        extra_k = rnd.randrange(20, 40)
        kranges.append((extra_k, extra_k))
    else:
        kranges = [(0, 8), (9, 17), (18, 26), (27, 35), (36, 44)]
        sranges = [(0, 5), (12, 20), (60, 66)]
    for f in range(6):
        classes = (0, 1, 2, 3)
        if f in (1, 2):
            classes = (0,)
        if f in (4, 5):
            classes = (0, 1)
        for cl in classes:
            w = 4 if f in (0,) else 3
            if f == 3:
                w = 3
            for (k0, k1) in kranges:
                for (s0, s1) in sranges:
                    for off in ((1,) if tier == "quick" else (0, 5)):
                        jl.append(J("se_h_c14_window", {0: f, 1: cl, 2: w, 3: k0, 4: k1, 5: s0, 6: s1, 7: off},
                                    label="%s window=%d filler=%d k=%d..%d s=%d..%d" % (fnames[f], w, cl, k0, k1, s0, s1),
                                    need=[9999], weight=(k1 - k0 + 1) * (s1 - s0 + 1) * (8 if f == 0 else 2)))
    # scalar validator beyond the 64-byte SIMD threshold (cpuid stub): long ASCII / multi-byte prefix
    for cl in (0, 2):
        ks = [(64, 66)] if tier == "quick" else [(60, 70), (120, 124)]
        for (k0, k1) in ks:
            if cl == 2:
                k0, k1 = k0 // 3, k1 // 3 + 1
            jl.append(J("se_h_c14_window", {0: 0, 1: cl, 2: 4, 3: k0, 4: k1, 5: 0, 6: 3, 7: 0},
                        label="utf8_valid_up_to >=64 bytes (scalar path via cpuid stub) filler=%d" % cl, need=[9999], weight=60))
    return jl


PROPS["C14"] = dict(
    cfgs=["verif_c14"], level="model_checking", jobs=c14_jobs,
    explanation=("Each validator (Encoding::utf8_valid_up_to, ascii_valid_up_to, iso_2022_jp_ascii_valid_up_to, mem::utf16_valid_up_to, "
                 "mem::utf8_latin1_up_to, mem::str_latin1_up_to) is executed symbolically from the compiled IR of the real crate and its result is "
                 "asserted equal to a naive one-unit-at-a-time reference predicate (and, for UTF-8, to core::str::from_utf8) for every value of the "
                 "symbolic units; z3 decides every assertion over the whole input space of the path."),
    bounds=lambda tier: ("(a) every buffer of length 0..=%d (0..=%d for the ASCII/UTF-16 functions) with all units symbolic, at %d start offsets; "
                         "(b) a window of 3-4 fully symbolic units after k whole filler characters (ASCII, 2-, 3-, 4-byte / BMP, surrogate pair, "
                         "space) and before s filler units (possibly a truncated character), k and s over the ranges listed per job "
                         "(quick: k in 0..18 and one seed-chosen value, s in 0..5; thorough: k in 0..44, s in 0..5, 12..20, 60..66); "
                         "(c) utf8_valid_up_to with 64..%d bytes before the window so that the built-in scalar validator runs past the SIMD threshold."
                         % ((5, 4, 2, 66) if tier == "quick" else (6, 5, 4, 124))),
    outside=["simdutf8 SIMD kernels (x86 intrinsics)", "simd-accel build", "buffers longer than the stated bounds",
             "more than one symbolic window per buffer"],
    assumptions=ENGINE_ASSUMPTIONS + ["str_latin1_up_to: input assumed valid UTF-8 (its &str precondition), expressed with the reference validator"],
)


# ----------------------------------------------------------------------------------------------- C01
def lead_shards(enc, n):
    """first-byte ranges: one shard for the non-lead bytes, then the lead range split n ways"""
    lo, hi = {"Big5": (0x81, 0xFE), "EUC-KR": (0x81, 0xFE), "GBK": (0x81, 0xFE), "gb18030": (0x81, 0xFE),
              "Shift_JIS": (0x81, 0xFC), "EUC-JP": (0x8E, 0xFE)}[enc]
    out = [(0, lo - 1)]
    step = (hi - lo + 1 + n - 1) // n
    a = lo
    while a <= hi:
        out.append((a, min(a + step - 1, hi)))
        a += step
    if hi < 0xFF:
        out.append((hi + 1, 0xFF))
    return out


# lead bytes whose shard is always part of a quick tier (they select a different state machine arm, not just a different table row)
SPECIAL_LEADS = {"Big5": (0x88,), "GBK": (0x81,), "gb18030": (0x81, 0x90), "EUC-JP": (0x8E,), "Shift_JIS": (0xF0,), "EUC-KR": ()}


def special_shards(enc, shards):
    return [sh for sh in shards if any(sh[0] <= b <= sh[1] for b in SPECIAL_LEADS.get(enc, ()))]


def c01_jobs(tier, seed):
    jl = []
    q = tier == "quick"

    def add(enc, nmin, nmax, sink, repl, lo=0, hi=255, pre=0, need=(9999,), weight=1, **kw):
        jl.append(J("se_h_c01_decode", {0: E[enc], 1: nmin, 2: nmax, 3: sink, 4: repl, 5: lo, 6: hi, 7: pre},
                    label="%s n=%d..%d sink=%s repl=%d first=%02X..%02X prefix=%d" % (enc, nmin, nmax, ("utf16", "utf8")[sink], repl, lo, hi, pre),
                    need=list(need), weight=weight, **kw))
    has_err = {n: True for n in ENC_NAMES}
    for n in ("IBM866", "ISO-8859-2", "ISO-8859-4", "ISO-8859-5", "ISO-8859-10", "ISO-8859-13", "ISO-8859-14", "ISO-8859-15",
              "ISO-8859-16", "KOI8-R", "KOI8-U", "macintosh", "windows-1250", "windows-1251", "windows-1252", "windows-1254",
              "windows-1256", "windows-1258", "x-mac-cyrillic", "x-user-defined"):
        has_err[n] = False
    for i in SINGLE + [E["x-user-defined"], E["replacement"]]:
        enc = ENC_NAMES[i]
        need = [9999, 20, 21] if has_err[enc] else [9999, 21]
        for sink in (0, 1):
            for repl in (0, 1):
                add(enc, 0, 2 if q else 3, sink, repl, need=need, weight=1)
    for enc in ("UTF-8", "UTF-16BE", "UTF-16LE"):
        for sink in (0, 1):
            for repl in (0, 1):
                # sharded by first byte (UTF-8: ASCII / continuation+C0.. / 2-byte leads / 3-byte leads / 4-byte leads and above)
                ranges = [(0, 0x7F), (0x80, 0xC1), (0xC2, 0xDF), (0xE0, 0xE7), (0xE8, 0xEF), (0xF0, 0xFF)] if enc == "UTF-8" else \
                         [(0, 0x3F), (0x40, 0x7F), (0x80, 0xBF), (0xC0, 0xFF)]
                for k, (lo, hi) in enumerate(ranges):
                    add(enc, 0 if k == 0 else 1, 4 if q else 5, sink, repl, lo, hi, need=[9999], weight=40)
    for enc in ("Big5", "EUC-KR", "Shift_JIS", "EUC-JP", "GBK", "gb18030"):
        shards = lead_shards(enc, 16)        # ~8 lead values per job: table facts stay local to the shard
        for sink in (0, 1):
            for repl in (0, 1):
                full = sink == 0 and repl == 0
                nmax = 3 if (full or not q) else 2
                if enc in ("GBK", "gb18030") and not q and full:
                    nmax = 4                 # four-byte forms: ~3 min per shard, thorough tier only
                if enc == "EUC-JP" and not q:
                    nmax = 4
                for (lo, hi) in shards:
                    add(enc, 0 if lo == 0 else 1, nmax, sink, repl, lo, hi, need=[9999], weight=40 * nmax)
    # ISO-2022-JP: fully symbolic short streams + every valid / damaged escape as concrete prefix
    for sink in (0, 1):
        for repl in (0, 1):
            full = sink == 0 and repl == 0
            add("ISO-2022-JP", 0, 3 if (q and not full) else 4, sink, repl, need=[9999, 20, 21], weight=60)
            for pre in range(1, 15):
                if q and not full and pre > 5:
                    continue
                add("ISO-2022-JP", 0, 3 if (full or not q) else 2, sink, repl, pre=pre, need=[9999], weight=60)
    # escape, one symbolic byte, a second concrete escape, then symbolic bytes: the Standard's "output flag" (an escape directly after
    # an escape is an error; after any output OR error byte it is not) in every state
    k = 0
    for pre in (1, 2, 3, 4, 5):
        for mid in (1, 2, 3, 5, 9, 11):
            if q and mid in (2, 9, 11) and pre not in (3, 5):
                continue
            for (sink, repl) in ([(k % 2, (k // 2) % 2)] if q else [(0, 0), (0, 1), (1, 0), (1, 1)]):
                jl.append(J("se_h_c01_decode", {0: E["ISO-2022-JP"], 1: 1, 2: 2 if q else 3, 3: sink, 4: repl, 5: 0, 6: 255, 7: pre, 8: mid},
                            label="ISO-2022-JP prefix=%d, one symbolic byte, escape %d, n<=%d more; sink=%s repl=%d" % (pre, mid, 1 if q else 2, ("utf16", "utf8")[sink], repl),
                            need=[9999], weight=60))
            k += 1
    for j in jl:
        j["time_budget"] = 900 if q else 3000
    return jl


PROPS["C01"] = dict(
    cfgs=["verif_c01"], level="model_checking", jobs=c01_jobs,
    explanation=("For every encoding the real Decoder (built from /repo, executed symbolically from its LLVM IR through the public API with a "
                 "worst-case-sized sink and last=true) is run on a stream of N fully symbolic bytes, and its complete output - code units and "
                 "Malformed(len, after) reports converted to absolute spans - is asserted equal to a line-by-line transcription of the WHATWG "
                 "decoder algorithm of that encoding run on the same symbolic bytes (index data regenerated from tests/test_data). With "
                 "replacement: one U+FFFD per error and had_errors <=> some error. z3 decides every branch and every assertion per path."),
    bounds=lambda tier: ("complete streams (one call sequence, last=true) of N symbolic bytes: single-byte/x-user-defined/replacement N<=%d; UTF-8, UTF-16LE/BE N<=%d; "
                         "Big5, EUC-KR, Shift_JIS N<=3 (quick: N<=2 for the UTF-8 sink and the replacing methods); EUC-JP N<=%d; GBK/gb18030 N<=3 "
                         "(quick: 2 for UTF-8 sink/replacing; thorough: N<=4 for the UTF-16 sink without replacement, i.e. all four-byte forms); ISO-2022-JP N<=4 fully symbolic plus 14 concrete escape prefixes (valid, truncated, "
                         "doubled, with pending lead) followed by <=3 symbolic bytes; both sinks (UTF-16, UTF-8), with and without replacement; "
                         "sharded by first-byte range" % ((2, 4, 3) if tier == "quick" else (3, 5, 4))),
    outside=["streams longer than N bytes", "content of the 28 single-byte index tables and of the gb18030 ranges table (trusted data: no second copy offline)",
             "BOM handling (C10)", "chunked input (C02)"],
    assumptions=ENGINE_ASSUMPTIONS + [
        "reference decoders in /verif/harness/refdec.rs are faithful transcriptions of the Encoding Standard",
        "reference index tables are regenerated from /repo/tests/test_data/*_in_ref.txt (upstream-generated from indexes.json)",
        "an error's span is defined as the bytes the erroring step consumed, did not restore and did not use (e.g. an ESC that starts an escape is used)"],
)


# ----------------------------------------------------------------------------------------------- C02
UTF8_RANGES = [(0, 0x7F), (0x80, 0xC1), (0xC2, 0xDF), (0xE0, 0xE7), (0xE8, 0xEF), (0xF0, 0xFF)]
Q_RANGES = [(0, 0x3F), (0x40, 0x7F), (0x80, 0xBF), (0xC0, 0xFF)]


def c02_jobs(tier, seed):
    jl = []
    q = tier == "quick"
    rnd = random.Random(seed)
    SINKS = ("utf16", "utf8", "str", "String")

    def add(enc, n0, n1, sink, repl, lo, hi, pre, regime, bom=0, weight=10, need=()):
        mn = 2 if sink == 0 else 4
        # regimes: A = 2 cuts + optional empty final call, large sink; B = 1 cut, 3 symbolic per-call capacities
        # min..min+2; C = 2 cuts + empty final call at the fixed documented minimum; D = 2 cuts, capacities min..min+1
        # E = 1 cut, the first two calls at one symbolic capacity BELOW the documented minimum (0..min-1: no progress possible, a panic
        # permitted), then a large destination - the String::new() + reserve-on-OutputFull pattern
        cmin, cmax, ncuts, el = {"A": (24, 24, 2, 1), "B": (mn, mn + (1 if q else 2), 1, 0), "C": (mn, mn, 2, 1), "D": (mn, mn + 1, 2, 0),
                                 "E": (0, mn - 1, 1, 1)}[regime]
        nd = [9999] + list(need)
        extra = {"tolerate_panic": True} if regime == "E" else {}
        jl.append(J("se_h_c02_chunk", {0: E[enc], 1: n0, 2: n1, 3: sink, 4: repl, 5: lo, 6: hi, 7: pre, 8: bom, 9: cmin, 10: cmax, 11: ncuts, 12: el,
                                       13: 1 if regime == "E" else 2 if q else 3, 14: 1 if regime == "E" else 0}, **extra,
                    label="%s n=%d..%d sink=%s repl=%d first=%02X..%02X prefix=%d regime=%s%s" % (enc, n0, n1, SINKS[sink], repl, lo, hi, pre, regime,
                                                                                                  ("", " BOM removal", " BOM sniffing")[bom]),
                    need=nd, weight=weight, time_budget=900 if q else 3000))

    third = rnd.choice([(2, 0), (3, 1)])

    cfg_calls = [0]

    def configs(cheap=False):
        """(sink, repl) pairs: every sink kind and both replacement modes appear; quick trims the product for the expensive
        encodings to one replacement mode per slice sink - alternating from call to call, so that sink kind and replacement mode are
        not tied to each other across the table - and a seed-chosen one of &mut str / String"""
        if q:
            a = cfg_calls[0] % 2
            cfg_calls[0] += 1
            return [(0, a), (1, 1 - a), (2, 1 - a), (3, a)] if cheap else [(0, a), (1, 1 - a), (third[0], (third[1] + a) % 2)]
        return [(s, r) for s in range(4) for r in (0, 1)]
    regimes = ("A", "B", "C") if q else ("A", "B", "C", "D")
    # single-byte family shares one code path: all 28 in regime C/UTF-16, three representatives in everything
    reps = ["windows-1252", "windows-874", "ISO-8859-8"] + ([ENC_NAMES[rnd.choice(SINGLE)]] if q else [])
    for i in SINGLE:
        enc = ENC_NAMES[i]
        if enc in reps or not q:
            for (s, r) in configs(True):
                for g in regimes:
                    add(enc, 0, 3, s, r, 0, 255, 0, g, weight=8)
        else:
            add(enc, 0, 3, 0, 0, 0, 255, 0, "C", weight=4)
    for enc in ("x-user-defined", "replacement"):
        for (s, r) in configs(True):
            for g in regimes:
                add(enc, 0, 3, s, r, 0, 255, 0, g, weight=4)
    for enc in ("UTF-8", "UTF-16BE", "UTF-16LE"):
        n1 = 3 if enc == "UTF-8" else 4
        if not q:
            n1 += 1
        for (s, r) in configs():
            for g in regimes:
                for k, (lo, hi) in enumerate(UTF8_RANGES if enc == "UTF-8" else Q_RANGES):
                    add(enc, 0 if k == 0 else 1, n1, s, r, lo, hi, 0, g, weight=30)
    for enc in ("Big5", "EUC-KR", "Shift_JIS", "EUC-JP", "GBK", "gb18030"):
        shards = lead_shards(enc, 16)
        if q:
            # quick: the non-lead shard, the last (past-the-leads) shard and two seed-chosen lead shards
            mid = shards[1:-1] if shards[-1][1] == 0xFF and shards[-1][0] > shards[1][0] else shards[1:]
            pick = [shards[0], shards[-1]] + rnd.sample(mid, 2)
            if enc in ("GBK", "gb18030") and shards[1] not in pick:
                pick.append(shards[1])         # leads 0x81..: the four-byte forms and their pending_ascii machinery
            pick += [sh for sh in special_shards(enc, shards) if sh not in pick]
        else:
            pick = shards
        n1 = 3
        for (s, r) in configs():
            for g in regimes:
                for (lo, hi) in pick:
                    add(enc, 0 if lo == 0 else 1, n1 if not (enc in ("GBK", "gb18030") and not q and s == 0 and r == 0) else 4,
                        s, r, lo, hi, 0, g, weight=40)
    # ISO-2022-JP: fully symbolic + escape prefixes
    for (s, r) in configs():
        for g in regimes:
            for (lo, hi) in [(0, 0x1A), (0x1B, 0x1B), (0x1C, 0x7F), (0x80, 0xFF)]:
                add("ISO-2022-JP", 0 if lo == 0 else 1, 3, s, r, lo, hi, 0, g, weight=40)
            for pre in ((4, 5, 8, 13) if q else range(1, 15)):
                add("ISO-2022-JP", 0, 2 if q else 3, s, r, 0, 255, pre, g, weight=40)
    # the BOM-handling front end (removal, sniffing) withholds and replays bytes across calls: the same chunking invariance with the
    # first byte in the shard that contains the BOM leads (EF / FE / FF), for every decoder family
    bconf = [(0, 0), (1, 1)] if q else [(s, r) for s in range(4) for r in (0, 1)]
    bregs = ("B", "C") if q else regimes
    for enc in ("windows-1252", "windows-874", "x-user-defined", "UTF-8", "UTF-16LE", "UTF-16BE", "EUC-KR", "Big5", "gb18030", "Shift_JIS", "ISO-2022-JP"):
        cjk = enc in ("EUC-KR", "Big5", "gb18030", "Shift_JIS")
        if enc == "UTF-8":
            rs = [(0xE8, 0xEF)]
        elif enc in ("UTF-16LE", "UTF-16BE"):
            rs = [(0xC0, 0xFF)]
        elif cjk:
            rs = [sh for sh in lead_shards(enc, 16) if sh[0] <= 0xEF <= sh[1]]
        else:
            rs = [(0xE0, 0xFF)]
        for bom in ((2,) if (q and (cjk or enc == "ISO-2022-JP")) else (1, 2)):
            for (s, r) in bconf:
                for g in bregs:
                    for (lo, hi) in rs:
                        add(enc, 1, 4 if enc.startswith("UTF-16") else 3, s, r, lo, hi, 0, g, bom=bom, weight=30 if cjk else 12)
    # regime E (tiny destinations first) for every decoder family, BOM handling off and sniffing
    for enc in ("windows-1252", "x-user-defined", "UTF-8", "UTF-16LE", "Big5", "gb18030", "Shift_JIS", "EUC-JP", "EUC-KR", "ISO-2022-JP", "replacement"):
        cjk = enc in ("EUC-KR", "Big5", "gb18030", "Shift_JIS", "EUC-JP")
        if enc == "UTF-8":
            rs = [(0xE8, 0xEF)] if q else UTF8_RANGES
        elif enc == "UTF-16LE":
            rs = [(0xC0, 0xFF)] if q else Q_RANGES
        elif cjk:
            sh = lead_shards(enc, 16)
            rs = [x for x in sh if x[0] <= 0xEF <= x[1]] + ([] if q else sh[:4])
        else:
            rs = [(0, 255)] if enc != "ISO-2022-JP" else [(0, 0x1A), (0x1B, 0x1B), (0x1C, 0xFF)]
        for ii, (lo, hi) in enumerate(rs):
            for bom in (0, 2):
                for (sk, r) in ([(ii % 2, bom // 2), (1 - ii % 2, 1 - bom // 2)] if q else [(sk, r) for sk in (0, 1, 3) for r in (0, 1)]):
                    add(enc, 0 if lo == 0 else 1, 4 if enc == "UTF-16LE" else 3, sk, r, lo, hi, 0, "E", bom=bom, weight=30 if cjk else 12)
    # UTF-8 vs UTF-16 output forms denote the same scalars
    for i in range(40):
        enc = ENC_NAMES[i]
        if i in SINGLE and q and enc not in reps:
            continue
        if enc in ("Big5", "EUC-KR", "Shift_JIS", "EUC-JP", "GBK", "gb18030"):
            shards = lead_shards(enc, 16)
            pick = ([shards[0]] + rnd.sample(shards[1:-1], 3)) if q else shards
        elif enc == "UTF-8":
            pick = UTF8_RANGES
        else:
            pick = [(0, 255)]
        for repl in (0, 1):
            for (lo, hi) in pick:
                jl.append(J("se_h_c02_forms", {0: i, 1: 0 if lo == 0 else 1, 2: 3, 4: repl, 5: lo, 6: hi, 7: 0},
                            label="%s forms repl=%d first=%02X..%02X" % (enc, repl, lo, hi), need=[9999], weight=15,
                            time_budget=900 if q else 3000))
    return jl


PROPS["C02"] = dict(
    cfgs=["verif_c02"], level="model_checking", jobs=c02_jobs,
    # vacuity guard over the whole run: OutputFull while chunked, stream cut twice, empty middle buffer, empty final
    # call carrying `last`, streams with and without errors
    need_global=[30, 31, 32, 33, 20, 21],
    explanation=("The real Decoder is run twice on the same stream of N fully symbolic bytes: once in a single call sequence with a worst-case-sized "
                 "sink, once cut into up to three input buffers (symbolic cut points, empty buffers allowed, optionally an empty final call carrying "
                 "`last`) with symbolic per-call output capacities at and just above the documented minimum, re-pushing unconsumed input as documented. "
                 "Concatenated text, had_errors, the decoder's encoding() and absolute malformed-sequence spans are asserted equal; a second harness "
                 "asserts that the UTF-8 and UTF-16 forms denote the same scalars. Only real code on both sides (no reference model), so the claim does "
                 "not depend on any trusted index data. z3 decides every branch and assertion per path."),
    bounds=lambda tier: ("streams of N symbolic bytes (single-byte, x-user-defined, replacement N<=3; UTF-8 N<=%d; UTF-16LE/BE N<=%d; CJK two-byte N<=3%s; ISO-2022-JP N<=3 "
                         "plus %s concrete escape prefixes); sinks UTF-16 slice, UTF-8 slice, &mut str, String; with/without replacement (%s); three call-history "
                         "regimes whose costs add: A = two symbolic cuts + optional empty final call, large sink; B = one symbolic cut, symbolic per-call "
                         "capacities (quick: two calls, min..min+1; thorough: three calls, min..min+2); C = two symbolic cuts + empty final call at the fixed documented minimum (4 bytes / 2 units)%s. "
                         "%s" % ((3, 4, "", "4", "quick: sink/mode pairs (utf16,no), (utf8,yes) and a seed-chosen one of (str,no)/(String,yes); all four for the cheap encodings", "",
                                  "Quick: CJK encodings on the non-lead shard, the past-the-leads shard and two seed-chosen 8-lead shards; 24 of the 28 single-byte encodings only in regime C/UTF-16 (shared code path).")
                                 if tier == "quick" else
                                 (4, 5, ", gb18030/GBK N<=4 for the UTF-16 sink without replacement", "14", "all 8 sink/mode pairs",
                                  "; D = two cuts with capacities min..min+1", "All lead shards, all encodings in every regime."))),
    outside=["streams longer than N bytes", "more than two cuts", "BOM modes other than 'without BOM handling' (C10)",
             "capacities more than 2 above the minimum combined with two cuts"],
    assumptions=ENGINE_ASSUMPTIONS + ["the single-call run of the same real decoder is the yardstick (its conformance is C01)"],
)


# ----------------------------------------------------------------------------------------------- C10
def c10_jobs(tier, seed):
    jl = []
    q = tier == "quick"
    rnd = random.Random(seed)
    SINKS = ("utf16", "utf8", "str", "String")
    MODES = {0: "off", 1: "remove", 2: "sniff"}
    CLS = ("EF..", "FE/FF..", "other")

    def add(enc, n1, sink, repl, cls, bom, cmin, cmax, ncuts, el=1, weight=30, **kw):
        jl.append(J("se_h_c10_bom", {0: E[enc], 1: 0, 2: n1, 3: sink, 4: repl, 5: cls, 8: bom, 9: cmin, 10: cmax, 11: ncuts, 12: el},
                    label="%s mode=%s n<=%d first=%s sink=%s repl=%d cap=%d..%d cuts=%d" % (enc, MODES[bom], n1, CLS[cls], SINKS[sink], repl, cmin, cmax, ncuts),
                    need=[9999], weight=weight + (1000 if kw.get("mem_gb") else 0), time_budget=900 if q else 3000, **kw))
    cjk = ("Big5", "EUC-JP", "EUC-KR", "GBK", "Shift_JIS", "gb18030")
    if q:
        sniff = ["windows-874", "ISO-2022-JP", "windows-1252", "UTF-8", "UTF-16LE", "UTF-16BE", "replacement", "x-user-defined",
                 "Big5", "Shift_JIS", "gb18030", ENC_NAMES[rnd.choice(SINGLE)], rnd.choice(["EUC-JP", "EUC-KR", "GBK"])]
    else:
        sniff = list(ENC_NAMES)
    for enc in dict.fromkeys(sniff):
        n1 = 3 if enc in cjk else 4
        if not q and enc not in cjk:
            n1 = 5
        if enc == "UTF-8":
            n1 = 3 if q else 4          # the UTF-8 decoder alone has ~1100 data paths per 3 bytes
        n1b = 2 if (q and enc in ("gb18030", "GBK")) else n1     # FE/FF are gb18030 leads: whole-table facts
        big = dict(mem_gb=10) if enc in ("gb18030", "GBK") else {}
        # first byte EF: the withheld EF BB x family
        add(enc, n1, 0, 0, 0, 2, 24, 24, 3)                 # UTF-16, spans, large sink, three cuts
        add(enc, n1, 1, 1, 0, 2, 4, 4, 2)                   # UTF-8 replacing, documented minimum sink
        add(enc, n1, 1, 0, 0, 2, 4, 5, 2, el=0)             # UTF-8 without replacement, capacities 4..5
        # first byte FE / FF
        add(enc, n1b, 0, 1, 1, 2, 2, 2, 3, **big)           # UTF-16 replacing, minimum sink, three cuts
        add(enc, n1b, 1, 0, 1, 2, 24, 24, 2, **big)
        # anything else: nothing may be withheld or stripped
        add(enc, 2, 0, 0, 2, 2, 2, 3, 2, weight=10, **big)
        if not q:
            for sink in (2, 3):
                for cls in (0, 1):
                    add(enc, n1, sink, 1, cls, 2, 4, 4, 2)
                    add(enc, n1, sink, 0, cls, 2, 4, 5, 2, el=0)
    # BOM removal strips only its own BOM; no-BOM mode strips nothing
    for enc in (["UTF-8", "UTF-16LE", "UTF-16BE", "windows-1252", "ISO-2022-JP"] if q else ENC_NAMES):
        n1 = 3 if (enc in cjk or (q and enc == "UTF-8")) else 4
        for bom in (1, 0):
            for cls in (0, 1):
                add(enc, n1, 0, 0, cls, bom, 24, 24, 2, weight=20)
                add(enc, n1, 1, 1, cls, bom, 4, 4, 2, weight=20)
    # the String::new() + reserve-on-OutputFull pattern: the first call after each cut... offers a tiny destination (0..minimum-1 units,
    # symbolic; a call may make no progress, and below the documented minimum a panic is permitted), then the caller offers a large one;
    # whatever was withheld must still be delivered exactly once
    for enc in (["windows-1252", "UTF-8", "UTF-16BE", "Big5"] if q else ENC_NAMES):
        n1 = 3
        big = dict(mem_gb=10) if enc in ("gb18030", "GBK") else {}
        for bom in ((2,) if (q and enc not in ("UTF-8", "UTF-16LE", "UTF-16BE")) else (2, 1)):
            for cls in (0, 1):
                for (sink, repl) in (((0, cls), (1, 1 - cls)) if q else ((0, 0), (0, 1), (1, 0), (1, 1), (3, 1))):
                    mn = 2 if sink == 0 else 4
                    for k in ((2,) if q else (1, 2, 3)):
                        j = J("se_h_c10_bom", {0: E[enc], 1: 0, 2: n1, 3: sink, 4: repl, 5: cls, 8: bom, 9: 0, 10: mn - 1, 11: 2, 12: 1, 13: k},
                              label="%s mode=%s n<=%d first=%s sink=%s repl=%d: first %d calls with a 0..%d unit destination, then large; cuts=2" % (
                                  enc, MODES[bom], n1, CLS[cls], SINKS[sink], repl, k, mn - 1),
                              need=[9999], weight=25, time_budget=900 if q else 3000, tolerate_panic=True, **big)
                        jl.append(j)
    jl.append(J("se_h_c10_for_bom", {1: 5}, label="Encoding::for_bom on every buffer of length 0..5", need=[9999, 50, 51], weight=1))
    return jl


PROPS["C10"] = dict(
    cfgs=["verif_c10"], level="model_checking", jobs=c10_jobs,
    need_global=[40, 41, 42, 43, 44, 30, 20, 21],
    explanation=("A decoder in each BOM mode (sniffing, BOM removal, no BOM handling) is run through the public API on a stream of N fully symbolic "
                 "bytes that is cut at up to three symbolic points among its first four bytes (empty buffers and an empty final call included), with "
                 "output capacities at the documented minimum and large. Its output, its Malformed reports as absolute spans, had_errors and "
                 "encoding() are asserted equal to the Standard's decode algorithm: BOM sniff over the first 2-3 bytes, then the transcribed "
                 "reference decoder of the selected encoding over the rest. Encoding::for_bom is checked on every buffer of length 0..5. "
                 "z3 decides every branch and assertion per path."),
    bounds=lambda tier: ("streams of N<=%s symbolic bytes (N<=3 for the CJK nominal encodings; quick: N<=3 for nominal UTF-8 and N<=2 for gb18030 outside the EF class), sharded by the class of the first byte (EF / FE,FF / other); up to three "
                         "symbolic cuts within the first four bytes, optional empty final call; sinks %s; capacities: documented minimum (4 bytes / 2 units), 4..5, and large (24); "
                         "nominal encodings: %s" % (("4", "UTF-16 and UTF-8 slices", "13 for sniffing (windows-874, ISO-2022-JP, windows-1252, UTF-8, UTF-16LE/BE, replacement, x-user-defined, Big5, Shift_JIS, "
                                                     "gb18030 and two seed-chosen ones), 5 for the removal and no-BOM modes")
                                                    if tier == "quick" else ("5", "UTF-16 slice, UTF-8 slice, &mut str, String", "all 40 in all three modes"))),
    outside=["streams longer than N bytes", "cuts after the fourth byte (covered by C02 for the no-BOM mode)",
             "content of trusted index data (see C01)"],
    assumptions=ENGINE_ASSUMPTIONS + ["reference decoders and reference indexes as in C01",
                                      "the Standard's BOM sniff is the three-prefix test EF BB BF / FE FF / FF FE on the start of the stream"],
)


# ----------------------------------------------------------------------------------------------- C03
CJK_ENC = ("Big5", "EUC-JP", "EUC-KR", "GBK", "Shift_JIS", "gb18030", "ISO-2022-JP")
# 1024-wide BMP windows that contain a constant of some encoder's range tests / special cases
SPECIAL_WINDOWS = [0x0000, 0x2000, 0x2400, 0x3000, 0x4E00, 0x5000, 0x9C00, 0xAC00, 0xD400, 0xE000, 0xE400, 0xE800, 0xF400, 0xF800, 0xFC00]


def c03_jobs(tier, seed):
    jl = []
    q = tier == "quick"
    rnd = random.Random(seed)
    SRC = ("utf8", "utf16")

    def add(enc, src, repl, base, lo, hi, before=0, after=0, kind=0, weight=20):
        jl.append(J("se_h_c03_char", {0: E[enc], 1: src, 2: repl, 3: base, 4: lo, 5: hi, 6: before, 7: after, 8: kind},
                    label="%s from %s repl=%d U+%04X..U+%04X neighbours=%d,%d sink=%s" % (enc, SRC[src], repl, base + lo, base + hi, before, after, ("slice", "Vec")[kind]),
                    need=[9999], weight=weight, time_budget=900 if q else 3000))
    # single-byte, x-user-defined and the UTF-8 output encodings: the whole BMP in one job, plus astral windows
    for i in SINGLE + [E["x-user-defined"], E["UTF-8"], E["UTF-16LE"], E["UTF-16BE"], E["replacement"]]:
        enc = ENC_NAMES[i]
        confs = [(0, 0), (1, 1)] if q else [(s, r) for s in (0, 1) for r in (0, 1)]
        if q and i in SINGLE and enc not in ("windows-1252", "windows-1253", "IBM866", "ISO-8859-8", "macintosh"):
            confs = [rnd.choice([(0, 0), (1, 1), (0, 1), (1, 0)])]
        for (s, r) in confs:
            add(enc, s, r, 0, 0, 0xFFFF, weight=15)
            add(enc, s, r, 0x10000, 0, 0x03FF, weight=3)
            add(enc, s, r, 0x100000, 0xFC00, 0xFFFF, kind=1, weight=3)
    # single-byte encoders: the symbolic character right after a mapped non-ASCII one (the inner loops behind the ASCII fast path)
    # and between two of them; neighbours U+00A5 (2), U+20AC (8) - whichever the encoding maps - and the unmappable U+4E00 (5)
    for i in ([E[n] for n in ("windows-1252", "windows-1251", "IBM866", "KOI8-U", "macintosh", "windows-874", "ISO-8859-2", "x-user-defined")] if q
              else SINGLE + [E["x-user-defined"]]):
        enc = ENC_NAMES[i]
        for k, (before, after) in enumerate([(2, 0), (8, 1), (8, 8), (5, 2)]):
            for (lo, hi) in ((0, 0x04FF), (0x2000, 0x26FF)) if not (enc == "x-user-defined") else ((0, 0xFF), (0xF700, 0xF8FF)):
                add(enc, (k + 1) % 2, k // 2 % 2, 0, lo, hi, before, after, weight=8)
                if not q:
                    add(enc, k % 2, (k // 2 + 1) % 2, 0, lo, hi, before, after, weight=8)
    for enc in CJK_ENC:
        if q:
            # (U+D800..U+DFFF holds no scalar values: those two windows are never chosen)
            wins = sorted(set(SPECIAL_WINDOWS) | set(rnd.sample([w for w in range(0, 0x10000, 0x400) if not 0xD800 <= w < 0xE000], 6)))
        else:
            wins = [w for w in range(0, 0x10000, 0x400) if not 0xD800 <= w < 0xE000]
        for k, w in enumerate(wins):
            confs = [((k + j) % 2, j) for j in (0, 1)] if q else [(s, r) for s in (0, 1) for r in (0, 1)]
            for (s, r) in confs:
                add(enc, s, r, 0, w, w + 0x3FF, weight=40 if enc == "Big5" else 20)
        # astral: plane 1 start, plane 2 (Big5 maps into it), last plane end, gb18030 four-byte range ends
        planes = [(0x10000, 0, 0x3FF), (0x100000, 0xFC00, 0xFFFF)]
        if enc == "Big5":
            planes += [(0x20000, w, w + 0x3FF) for w in (range(0, 0x10000, 0x400) if not q else [0x0000, 0x0400] + rnd.sample(range(0x800, 0xB000, 0x400), 4))]
        else:
            planes += [(0x20000, 0, 0x3FF)]
        for (b, lo, hi) in planes:
            for (s, r) in ([(0, 0), (1, 1)] if q else [(s, r) for s in (0, 1) for r in (0, 1)]):
                add(enc, s, r, b, lo, hi, weight=10)
    # astral characters whose low 16 bits are a mappable BMP character (a truncating cast would alias them), in every encoder state
    for enc in CJK_ENC:
        for (lo, hi) in ([(0x3000, 0x30FF), (0x4E00, 0x4EFF)] if q else [(0x3000, 0x33FF), (0x4E00, 0x51FF), (0xAC00, 0xAFFF), (0xFF00, 0xFFEF)]):
            for (base, before) in ([(0x10000, 0), (0x20000, 0), (0xF0000, 0)] if enc != "ISO-2022-JP" else [(0x10000, 1), (0x10000, 2), (0x10000, 4), (0x10000, 5), (0xF0000, 2), (0x100000, 2)]):
                if q and enc != "ISO-2022-JP" and base != 0x10000:
                    continue
                add(enc, (before + lo // 0x100) % 2, (before // 2) % 2, base, lo, hi, before, 1 if enc == "ISO-2022-JP" else 0, weight=10)
    # state transitions: neighbours before and after (ISO-2022-JP states; gb18030/GBK euro and four-byte forms)
    nb = range(0, 12)
    for enc in ("ISO-2022-JP",):
        wsel = [0x3000, 0xFF00] if q else [0x0000, 0x2000, 0x3000, 0x4E00, 0x9C00, 0xE000, 0xFC00]
        for w in wsel:
            for before in nb:
                for after in ((0, 1, 2, 3, 4, 5) if q else nb):      # incl. U+00A5 / U+203E after (JIS0208 -> Roman transition)
                    if before == 0 and after == 0:
                        continue
                    s = (before + after) % 2
                    add(enc, s, (before + w // 0x400) % 2, 0, w, w + (0xFF if q else 0x3FF), before, after, weight=12)
    for enc in ("gb18030", "GBK", "Shift_JIS", "EUC-JP"):
        for (before, after) in [(1, 8), (8, 1), (6, 6), (5, 10)]:
            add(enc, before % 2, after % 2, 0, 0x2000, 0x23FF, before, after, weight=10)
    # UTF-16 source with arbitrary units around the surrogate range
    for enc in (ENC_NAMES if not q else ["windows-1252", "UTF-8", "Big5", "EUC-KR", "ISO-2022-JP", "gb18030", "Shift_JIS", "EUC-JP", "GBK", "x-user-defined"]):
        for repl in (0, 1):
            if enc in CJK_ENC:
                # two symbolic units through the CJK table scans: windows around the edges of the surrogate ranges
                for (a0, a1, b0, b1) in [(0xD7FE, 0xD802, 0xDBFE, 0xDC02), (0xDBFE, 0xDC02, 0xDFFE, 0xE001), (0xDBFE, 0xDC02, 0xD7FE, 0xD802)]:
                    jl.append(J("se_h_c03_units", {0: E[enc], 2: repl, 4: a0, 5: a1, 6: b0, 7: b1, 9: 2},
                                label="%s from utf16, 2 units U+%04X..%04X, U+%04X..%04X, repl=%d" % (enc, a0, a1, b0, b1, repl), need=[9999], weight=15,
                                time_budget=900 if q else 3000))
            else:
                jl.append(J("se_h_c03_units", {0: E[enc], 2: repl, 4: 0xD7F0, 5: 0xE00F, 6: 0xD7F0, 7: 0xE00F, 9: 2},
                            label="%s from utf16 units around the surrogate range, 2 units, repl=%d" % (enc, repl), need=[9999], weight=15,
                            time_budget=900 if q else 3000))
            jl.append(J("se_h_c03_units", {0: E[enc], 2: repl, 4: 0xD7F0, 5: 0xE00F, 6: 0, 7: 0xFFFF, 9: 1},
                        label="%s from utf16 single unit around the surrogate range repl=%d" % (enc, repl), need=[9999], weight=5))
    for j in jl:
        j["small_index_fork"] = 64
    return jl


PROPS["C03"] = dict(
    cfgs=["verif_c03"], level="model_checking", jobs=c03_jobs, need_global=[20, 21],
    explanation=("The real Encoder of every encoding's output encoding is executed symbolically through the public API (from UTF-8 and from UTF-16, with "
                 "and without replacement, slice and Vec sinks, last=true) on a text  [x] c [y]  whose character c = plane base + a fully symbolic "
                 "16-bit value inside a window, optionally between concrete neighbour characters that force every ISO-2022-JP state transition. "
                 "Its bytes, Unmappable(c) reports (with the source position), numeric character references, had_unmappables and the final return to "
                 "ASCII are asserted equal to a transcription of the Standard's encoder algorithm (pointer selection rules precomputed from the "
                 "regenerated indexes). A second harness feeds arbitrary UTF-16 code units around the surrogate range (lone, reversed, paired). "
                 "Each mapped code point is its own path (the encoders' table scans fork per entry and the path condition then pins the character); "
                 "all unmappable code points of a window share one path whose assertions z3 decides for the whole set at once."),
    bounds=lambda tier: ("character windows of 1024 code points: %s; single-byte, x-user-defined and the UTF-8 output encodings: the whole BMP in one job plus the "
                         "first window of plane 1 and the last of plane 16; ISO-2022-JP: 12 neighbour characters before/after (ASCII, U+00A5, U+203E, hiragana, "
                         "kanji, unmappable astral, ESC, euro, half-width katakana, U+2212, backslash); UTF-16: all 1- and 2-unit sequences with units in "
                         "U+D7F0..U+E00F (CJK encoders: two units in 5-wide windows around the four edges of the surrogate ranges)" % ("for each of the 7 CJK encoders the 15 windows containing a constant of some range test or special case plus 6 seed-chosen ones, alternating source form "
                                             "and replacement mode; Big5 additionally 6 windows of plane 2" if tier == "quick"
                                             else "for each of the 7 CJK encoders all 64 windows of the BMP and, for Big5, all 64 of plane 2, in all four source/mode combinations")),
    outside=["texts longer than three characters", "code points outside the listed windows (quick tier)",
             "content of the single-byte index tables and the gb18030 ranges table (trusted data)", "planes 3-15 except their first window for the CJK encoders"],
    assumptions=ENGINE_ASSUMPTIONS + ["reference encoders in /verif/harness/refenc.rs are faithful transcriptions of the Encoding Standard",
                                      "inverse indexes are computed by /verif/tools/gen_ref_index.py with the Standard's pointer-selection rules and cross-checked against tests/test_data/*_out*.txt"],
)


# ----------------------------------------------------------------------------------------------- C04
def c04_jobs(tier, seed):
    jl = []
    q = tier == "quick"
    rnd = random.Random(seed)
    SRC = ("utf8", "utf16")

    def add(enc, fa, fb, repl, base, lo, hi, before, after, kind, prefix, regime, weight=20):
        mn = 14 if repl else 4
        # A: two cuts + optional empty final call, large sink; B: one cut, symbolic per-call capacities min..min+2
        # (3 calls); C: two cuts + empty final call at the fixed minimum
        cmin, cmax, ncuts, el, ncalls = {"A": (40, 40, 2, 1, 1), "B": (mn, mn + 2, 1, 0, 2 if q else 3), "C": (mn, mn, 2, 1, 1)}[regime]
        jl.append(J("se_h_c04_chunk", {0: E[enc], 1: fa, 2: repl, 3: base, 4: lo, 5: hi, 6: before, 7: after, 8: kind, 9: prefix, 10: fb,
                                       11: ncuts, 12: cmin, 13: cmax, 14: ncalls, 15: el},
                    label="%s whole=%s chunked=%s repl=%d U+%04X..U+%04X nb=%d,%d sink=%s prefix<=%d regime=%s" % (
                        enc, SRC[fa], SRC[fb], repl, base + lo, base + hi, before, after, ("slice", "Vec")[kind], prefix, regime),
                    need=[9999], weight=weight, small_index_fork=64, time_budget=900 if q else 3000))
    W = 0x3F if q else 0x3FF          # window width - 1
    # single-byte family (shared code): the pair-at-the-output-limit shape and BMP windows
    sb = ["windows-1252", "windows-874", "x-user-defined"] + ([ENC_NAMES[rnd.choice(SINGLE)]] if q else [ENC_NAMES[i] for i in SINGLE])
    for enc in dict.fromkeys(sb):
        for repl in (0, 1):
            for g in ("A", "B", "C"):
                add(enc, 1, 1, repl, 0x10000, 0xF600, 0xF600 + 0xF, 0, 1, 0, 5, g)          # astral after an ASCII prefix, UTF-16
                add(enc, 0, 1, repl, 0, 0x80, 0xFF, 1, 5, repl, 2, g)                      # Latin1 range, forms differ
                add(enc, 1, 0, repl, 0, 0x2000, 0x2000 + W, 6, 0, 0, 0, g)
            # U+0000..U+00FF right after a mapped non-ASCII character (U+00A5 / U+20AC): the loops behind the ASCII fast path, whose
            # ASCII / non-ASCII class tests are separate code in the UTF-8 and UTF-16 paths
            for g in (("B",) if q else ("A", "B", "C")):
                add(enc, 0, 1, repl, 0, 0x00, 0xFF, 2 if repl else 8, 1, 0, 1, g)
                add(enc, 1, 0, repl, 0, 0x00, 0xFF, 8 if repl else 2, 0, 0, 0, g)
    for enc in ("UTF-8", "UTF-16LE", "replacement"):
        for g in ("A", "B", "C"):
            add(enc, 0, 1, 0, 0, 0x07C0, 0x083F, 1, 6, 0, 2, g)
            add(enc, 1, 0, 1, 0x10000, 0, W, 4, 1, 1, 0, g)
            # the edges of the surrogate ranges, read from UTF-16 in the chunked run at capacities min..min+2 after a 0..2 unit
            # ASCII prefix: low surrogates up to DFFF under the first high surrogate, and DBFF DFxx (the last plane)
            add(enc, 0, 1, 0, 0x10000, 0x03C0, 0x03FF, 1, 1, 0, 2, g)
            add(enc, 0, 1, 0, 0x100000, 0xFFC0, 0xFFFF, 1, 1, 0, 2, g)
    for g in ("A", "B", "C"):
        add("windows-1252", 0, 1, g != "A", 0x100000, 0xFFF0, 0xFFFF, 1, 1, 0, 2, g)
        add("windows-1252", 0, 1, g == "A", 0x10000, 0x03F0, 0x03FF, 1, 1, 0, 2, g)
    # (U+0400..: Cyrillic - mappable in every one of them and two bytes long in UTF-8, the only such class)
    wins = {"Big5": [0x4E00, 0x2550, 0x0400], "EUC-KR": [0xAC00, 0x4E00, 0x0400], "Shift_JIS": [0x3040, 0xFF60, 0x2200, 0x0400], "EUC-JP": [0x3040, 0xFF60, 0x2200, 0x0400],
            "GBK": [0x4E00, 0x20A0, 0xE780, 0x0400], "gb18030": [0x4E00, 0x20A0, 0xE780, 0x0080, 0x0400], "ISO-2022-JP": [0x3040, 0xFF60, 0x2200, 0x0000, 0x4E00, 0x0400]}
    for enc, ws in wins.items():
        if not q:
            ws = sorted(set(ws) | set(range(0, 0x10000, 0x1000)))
        for k, w in enumerate(ws):
            nbs = [(1, 5), (4, 1), (2, 4), (6, 9)] if enc == "ISO-2022-JP" else [(1, 5), (4, 1)]
            for (b, a) in (nbs if not q else nbs[:2 + (enc == "ISO-2022-JP")]):
                for g in ("A", "B", "C"):
                    repl = (k + b) % 2
                    fa, fb = (0, 1) if (k + a) % 2 else (1, 0)
                    ww = 0xF if (q and enc in ("GBK", "gb18030")) else W      # their encode lookups nest several tables
                    add(enc, fa, fb, repl, 0, w, w + ww, b, a, (k + b + a) % 2 if fb == 0 else 0, 0, g)
        for g in ("A", "B", "C"):
            add(enc, 1, 1, 0, 0x20000, 0, 0xF, 1, 1, 0, 3, g)          # astral from UTF-16 after an ASCII prefix
            add(enc, 0, 1, g == "B", 0x10000, 0xF600, 0xF60F, 5, 1, 0, 1, g)   # surrogate pair right after a non-ASCII (kanji) character
    return jl


PROPS["C04"] = dict(
    cfgs=["verif_c04"], level="model_checking", jobs=c04_jobs, need_global=[30, 31, 33, 34, 35, 20, 21],
    explanation=("The real Encoder is run twice on the same text - an ASCII prefix of symbolic length, optional concrete neighbours and one character that is fully "
                 "symbolic within a window: once in a single call with a large sink, once cut at symbolic character boundaries (never inside a surrogate "
                 "pair), optionally with an empty final call, with symbolic per-call capacities from the documented minimum (4 bytes; 14 when replacing) "
                 "upwards, in the same or the other source form (UTF-8 vs UTF-16), slice or Vec sink. Bytes, Unmappable reports (positions when the source "
                 "form is the same), had_unmappables and has_pending_state() must be equal. Only real code on both sides. z3 decides every branch and "
                 "assertion per path."),
    bounds=lambda tier: ("texts of up to 8 characters: 0..5 ASCII + [neighbour] + one symbolic character in a %d-wide window (quick: 16-wide for GBK/gb18030) + [neighbour]; windows: %s; regimes A = two cuts "
                         "+ optional empty final call with a large sink, B = one cut and symbolic per-call capacities min..min+2 (quick: two calls, thorough: three), C = two cuts + empty "
                         "final call at the fixed minimum; source forms of the two runs equal and different; with/without replacement; slice and Vec sinks"
                         % ((64, "2-5 per CJK encoder around its range-test constants, the Latin1 range and an astral window for the single-byte family (4 encodings)")
                            if tier == "quick" else (1024, "every sixteenth 1024-window of the BMP plus the special ones per CJK encoder; all single-byte encodings"))),
    outside=["texts with more than one symbolic character", "cuts inside a surrogate pair (excluded by the documented precondition)",
             "capacities more than 2 above the minimum combined with two cuts"],
    assumptions=ENGINE_ASSUMPTIONS + ["the single-call run of the same real encoder is the yardstick (its conformance is C03)",
                                      "documented minimum capacities: 4 bytes without replacement, 14 bytes (NCR_EXTRA + one character) with replacement"],
)


# ----------------------------------------------------------------------------------------------- C12
def c12_jobs(tier, seed):
    jl = []
    q = tier == "quick"
    rnd = random.Random(seed)
    W = 0xFF if q else 0x3FF

    def add(enc, form, base, lo, hi, before, after, kind, cmin, cmax, weight=20):
        jl.append(J("se_h_c12_back", {0: E[enc], 1: form, 3: base, 4: lo, 5: hi, 6: before, 7: after, 8: kind, 12: cmin, 13: cmax},
                    label="%s from %s U+%04X..U+%04X nb=%d,%d sink=%s cap=%d..%d" % (enc, ("utf8", "utf16")[form], base + lo, base + hi, before, after,
                                                                                     ("slice", "Vec")[kind], cmin, cmax),
                    need=[9999], weight=weight, small_index_fork=64, time_budget=900 if q else 3000))
    fold_wins = {"EUC-JP": [0x0080, 0x2000, 0x2100, 0x2200, 0xFF00], "Shift_JIS": [0x0080, 0x2000, 0x2100, 0x2200, 0xFF00],
                 "ISO-2022-JP": [0x0000, 0x0080, 0x2000, 0x2100, 0x2200, 0xFF00, 0x3000, 0x4E00], "GBK": [0xE700, 0xE800, 0x2000, 0x4E00],
                 "gb18030": [0xE700, 0xE800, 0x2000, 0x4E00, 0x0080], "Big5": [0x2500, 0x4E00, 0x5300], "EUC-KR": [0xAC00, 0x4E00]}
    for enc, ws in fold_wins.items():
        if not q:
            ws = sorted(set(ws) | set(w for w in range(0, 0x10000, 0x800) if not 0xD800 <= w < 0xE000))     # (no scalar values there)
        nbs = [(0, 0), (1, 1), (1, 4), (4, 1), (2, 2), (9, 5), (5, 9), (6, 1)] if enc == "ISO-2022-JP" else [(0, 0), (1, 4), (4, 1), (5, 1)]
        for k, w in enumerate(ws):
            for j, (b, a) in enumerate(nbs if not q else nbs[:(5 if enc == "ISO-2022-JP" else 2)]):
                ww = 0xF if (q and enc in ("GBK", "gb18030")) else W
                add(enc, (k + j) % 2, 0, w, w + ww, b, a, (k + j) % 2 if (k + j) % 2 == 0 else 0, 14, 16 if j % 2 == 0 else 14)
        add(enc, 1, 0x10000, 0, 0xFF, 1, 1, 0, 14, 15)
        add(enc, 0, 0x20000, 0, 0xFF, 4, 0, 1, 14, 14)
        # astral characters whose low 16 bits are a mappable BMP character, after ASCII / Roman / kana / kanji
        for jj, b in enumerate((1, 2, 4, 5) if enc == "ISO-2022-JP" else (1,)):
            for (base, lo) in (((0x10000, 0x3000), (0xF0000, 0x4E00)) if not q or enc == "ISO-2022-JP" else ((0x10000, 0x4E00),)):
                add(enc, jj % 2, base, lo, lo + (0xFF if lo == 0x3000 else 0x3F), b, 1, 0, 14, 16 if jj % 2 else 14)
    for i in ([E["windows-1252"], E["x-user-defined"], E["UTF-8"], E["UTF-16BE"], E["replacement"], rnd.choice(SINGLE)] if q else
              SINGLE + [E["x-user-defined"], E["UTF-8"], E["UTF-16LE"], E["UTF-16BE"], E["replacement"]]):
        enc = ENC_NAMES[i]
        add(enc, 0, 0, 0, 0xFFFF, 1, 5, 0, 14, 16, weight=15)
        add(enc, 1, 0, 0, 0xFFFF, 0, 1, 0, 14, 14, weight=15)
        add(enc, 1, 0x10000, 0, 0xFF, 1, 0, 0, 14, 15, weight=5)
    return jl


PROPS["C12"] = dict(
    cfgs=["verif_c12"], level="model_checking", jobs=c12_jobs, need_global=[30, 20, 21],
    explanation=("The real Encoder (replacing methods, so that every character leaves a trace) encodes a text [x] c [y] with c fully symbolic in a window, cut at a "
                 "symbolic character boundary with symbolic per-call capacities. After every encode call the bytes produced so far are decoded, as a complete "
                 "stream, by the real decoder of the same encoding and must be accepted without error (a character split across calls would show as a "
                 "dangling lead), and has_pending_state() must equal what a ten-line escape scanner derives from the emitted bytes. After the final call the "
                 "encoder must be back in the ASCII state and decoding the complete output must give the input with unmappable characters as their numeric "
                 "character references, modulo the Standard's documented folding set (written out in the harness). z3 decides every branch and assertion."),
    bounds=lambda tier: ("three-character texts with one symbolic character in a %d-wide window (quick: 16-wide for GBK/gb18030); windows per encoder: those containing the folding set (U+00A5, U+203E, "
                         "U+2212, half-width katakana, the 18 GB18030-2022 code points) and hanzi/kana/hangul samples%s; one symbolic cut; capacities 14..16; "
                         "single-byte, x-user-defined and UTF-8 output encodings: the whole BMP" % ((256, "") if tier == "quick" else (1024, " plus every other 1024-window of the BMP"))),
    outside=["texts with more than one symbolic character", "the without-replacement methods (covered for bytes by C03/C04)"],
    assumptions=ENGINE_ASSUMPTIONS + ["the real decoder is the yardstick for 'decodes back' (its conformance is C01)",
                                      "the folding set is the one named in the property: U+00A5/U+203E (EUC-JP, Shift_JIS), U+2212 (three Japanese encodings), half-width katakana (ISO-2022-JP), 18 GB18030-2022 PUA code points (GBK, gb18030)"],
)


# ----------------------------------------------------------------------------------------------- C08 / C09 (shared shapes)
def dec_shapes(tier, seed):
    """(encoding, nmax, [(lo, hi)...], [prefix ids]) for the decoder-side history harnesses"""
    q = tier == "quick"
    rnd = random.Random(seed)
    out = []
    singles = ["windows-1252", "windows-874", ENC_NAMES[rnd.choice(SINGLE)]] if q else [ENC_NAMES[i] for i in SINGLE]
    for enc in dict.fromkeys(singles + ["x-user-defined", "replacement"]):
        out.append((enc, 3, [(0, 255)], [0]))
    out.append(("UTF-8", 3 if q else 4, UTF8_RANGES, [0]))
    # complete four-byte sequences (N = 4, leads F0..F4), alone and behind one ASCII byte
    out.append(("UTF-8", 4, [(0xF0, 0xF4)], [15] if q else [0, 15]))
    out.append(("UTF-16LE", 4, Q_RANGES, [0]))
    out.append(("UTF-16BE", 4 if not q else 3, Q_RANGES if not q else [(0xD8, 0xDF), (0, 0xD7)], [0]))
    for enc in ("Big5", "EUC-KR", "Shift_JIS", "EUC-JP", "GBK", "gb18030"):
        shards = lead_shards(enc, 16)
        pick = [shards[0], shards[-1]] + rnd.sample(shards[1:-1], 2) if q else shards
        if q and enc == "Big5":
            sp = [s for s in shards if s[0] <= 0x88 <= s[1]]      # leads of the two-code-point sequences and astral characters
            pick += [s for s in sp if s not in pick]
        if q and enc in ("GBK", "gb18030") and shards[1] not in pick:
            pick.append(shards[1])                                 # leads 0x81..: four-byte forms
        if q:
            pick += [sh for sh in special_shards(enc, shards) if sh not in pick]     # EUC-JP 8E/8F, Shift_JIS EUDC, gb18030 astral
        out.append((enc, 3, pick, [0]))
    out.append(("ISO-2022-JP", 3, [(0, 0x1A), (0x1B, 0x1B), (0x1C, 0xFF)], [0]))
    out.append(("ISO-2022-JP", 2 if q else 3, [(0, 255)], [4, 5, 8, 13] if q else list(range(1, 15))))
    return out


def bom_shapes(tier):
    """(encoding, first-byte range containing the BOM leads, n, BOM mode) for the decoder front end that withholds EF / EF BB / FE / FF
    at the end of a buffer and replays them: every decoder family, sniffing (2) and removal (1)"""
    q = tier == "quick"
    out = []
    for enc in ("windows-1252", "windows-874", "x-user-defined", "UTF-8", "UTF-16LE", "UTF-16BE", "EUC-KR", "Big5", "gb18030", "Shift_JIS", "ISO-2022-JP", "replacement"):
        cjk = enc in ("EUC-KR", "Big5", "gb18030", "Shift_JIS")
        if enc == "UTF-8":
            rs = [(0xE8, 0xEF)]
        elif enc in ("UTF-16LE", "UTF-16BE"):
            rs = [(0xC0, 0xFF)]
        elif cjk:
            rs = [sh for sh in lead_shards(enc, 16) if sh[0] <= 0xEF <= sh[1]]
        else:
            rs = [(0xE0, 0xFF)]
        for bom in ((2,) if (q and enc not in ("UTF-8", "UTF-16LE", "UTF-16BE")) else (1, 2)):
            for (lo, hi) in rs:
                out.append((enc, lo, hi, 4 if enc.startswith("UTF-16") else 3, bom))
    return out


def enc_shapes(tier, seed):
    """(encoding, plane base, window lo, neighbours before/after, ascii prefix max)"""
    q = tier == "quick"
    rnd = random.Random(seed)
    W = 0x3F if q else 0x3FF
    out = []
    for enc in dict.fromkeys(["windows-1252", "x-user-defined", ENC_NAMES[rnd.choice(SINGLE)]] if q else [ENC_NAMES[i] for i in SINGLE] + ["x-user-defined"]):
        out += [(enc, 0x10000, 0xF600, 0xF60F, 0, 1, 5), (enc, 0, 0x80, 0xFF, 1, 5, 2), (enc, 0, 0x2000, 0x2000 + W, 6, 0, 0)]
    for enc in ("UTF-8", "UTF-16LE", "replacement"):
        out += [(enc, 0, 0x07C0, 0x083F, 1, 6, 2), (enc, 0x10000, 0, W, 4, 1, 0)]
    # (U+0400..: Cyrillic - mappable in every one of them and two bytes long in UTF-8, the only such class)
    wins = {"Big5": [0x4E00, 0x2550, 0x0400], "EUC-KR": [0xAC00, 0x4E00, 0x0400], "Shift_JIS": [0x3040, 0xFF60, 0x2200, 0x0400], "EUC-JP": [0x3040, 0xFF60, 0x2200, 0x0400],
            "GBK": [0x4E00, 0x20A0, 0xE780, 0x0400], "gb18030": [0x4E00, 0x20A0, 0xE780, 0x0080, 0x0400], "ISO-2022-JP": [0x3040, 0xFF60, 0x2200, 0x0000, 0x4E00, 0x0400]}
    for enc, ws in wins.items():
        if not q:
            ws = sorted(set(ws) | set(range(0, 0x10000, 0x1000)))
        nbs = [(1, 5), (4, 1), (2, 4), (6, 9), (5, 5)] if enc == "ISO-2022-JP" else [(1, 5), (4, 1)]
        for w in ws:
            for (b, a) in nbs:
                # quick: the GBK / gb18030 hanzi window is halved (each value costs a scan of the 6763-entry GB2312 table)
                out.append((enc, 0, w, w + (0x1F if (q and w == 0x4E00 and enc in ("GBK", "gb18030")) else W), b, a, 1))
        out.append((enc, 0x20000, 0, 0xF, 1, 1, 3))
    # astral characters whose low 16 bits are a mappable BMP character, after Roman / kana (ISO-2022-JP) or plain (others)
    for (enc, b) in (("ISO-2022-JP", 2), ("ISO-2022-JP", 4), ("Shift_JIS", 1), ("gb18030", 1)):
        out.append((enc, 0x10000, 0x3040, 0x3040 + 0x3F, b, 1, 0))
    # the length ladder of numeric character references: code points around 10^3, 10^4, 10^5, 10^6
    for enc in ("windows-1252", "Shift_JIS", "ISO-2022-JP", "Big5", "EUC-KR"):
        for (base, lo) in ((0, 0x03E0), (0, 0x2708), (0x10000, 0x8698), (0xF0000, 0x4238)):
            out.append((enc, base, lo, lo + 0xF, 1, 1, 0))
    return out


def long_jobs(tier, seed, symfill=False):
    """streaming conversions of long ASCII runs (the 16-unit strides of the ASCII fast paths) against every output limit"""
    jl = []
    q = tier == "quick"
    SINKS = ("utf16", "utf8", "str", "String")
    encs = ["windows-1252", "UTF-8", "Big5", "gb18030", "ISO-2022-JP", "x-user-defined", "UTF-16LE"] if q else \
        ["windows-1252", "windows-874", "UTF-8", "Big5", "EUC-KR", "EUC-JP", "Shift_JIS", "GBK", "gb18030", "ISO-2022-JP", "x-user-defined", "UTF-16LE", "UTF-16BE", "replacement"]
    i = 0
    for enc in encs:
        cjk = enc in ("Big5", "EUC-KR", "Shift_JIS", "EUC-JP", "GBK", "gb18030")
        if enc == "UTF-8":
            lo, hi = 0xC2, 0xF4
        elif cjk:
            lo, hi = lead_shards(enc, 16)[3]
        else:
            lo, hi = 0x80, 0xFF
        for k in ((16, 33) if q else (15, 16, 17, 31, 32, 33)):
            if enc.startswith("UTF-16") and k > 17:
                continue              # (every pair of bytes becomes up to three output bytes: beyond the harness's 48-event log)
            for s in ((i % 2) * 2,) if q else (0, 2):
                for (sink, repl) in ([(i % 2, (i // 2) % 2), (2 + i % 2, (i // 2 + 1) % 2)] if (q and not symfill) else [(i % 2, (i // 2) % 2)] if q else [(sk, r) for sk in range(4) for r in (0, 1)]):
                    if symfill and sink > 1:
                        continue
                    mn = 2 if sink == 0 else 4
                    jl.append(J("se_h_c08_long", {0: E[enc], 1: k, 2: 2, 3: sink, 4: repl, 5: lo, 6: hi, 7: s, 9: mn, 10: k + 3, 14: 500 if symfill else 0},
                                label="decode %s: %d ASCII + n<=2 symbolic (first %02X..%02X) + %d ASCII, sink=%s repl=%d, every capacity %d..%d%s" % (
                                    enc, k, lo, hi, s, SINKS[sink], repl, mn, k + 3, ", symbolic pre-fill" if symfill else ""),
                                need=[9999], weight=35, time_budget=900 if q else 3000, **({"mem_gb": 10} if enc in ("gb18030", "GBK") else {})))
                i += 1
    ewins = {"windows-1252": (0, 0x80, 0x17F), "UTF-8": (0, 0x7C0, 0x83F), "Big5": (0, 0x4E00, 0x4E3F), "gb18030": (0, 0x0080, 0x00BF), "ISO-2022-JP": (0, 0x3040, 0x307F),
             "x-user-defined": (0, 0xF780, 0xF7BF), "UTF-16LE": (0x10000, 0, 0x3F), "EUC-KR": (0, 0xAC00, 0xAC3F), "EUC-JP": (0, 0xFF60, 0xFF9F), "Shift_JIS": (0, 0xFF60, 0xFF9F),
             "GBK": (0, 0x20A0, 0x20DF), "windows-874": (0, 0x0E00, 0x0E3F), "UTF-16BE": (0, 0x2000, 0x203F), "replacement": (0x10000, 0, 0x3F)}
    for enc in encs:
        base, lo, hi = ewins[enc]
        for k in ((16, 33) if q else (15, 16, 17, 31, 32, 33)):
            for (form, repl) in ([(i % 2, (i // 2) % 2)] if q else [(f, r) for f in (0, 1) for r in (0, 1)]):
                if symfill:
                    continue
                mn = 14 if repl else 4
                jl.append(J("se_h_c08_long_enc", {0: E[enc], 1: form, 2: repl, 3: base, 4: lo, 5: hi, 6: k, 7: (i % 2) * 2, 8: 0 if form else i // 2 % 2, 9: mn, 10: k + 6},
                            label="encode %s from %s repl=%d: %d ASCII + U+%04X..U+%04X + %d ASCII, every capacity %d..%d" % (
                                enc, ("utf8", "utf16")[form], repl, k, base + lo, base + hi, (i % 2) * 2, mn, k + 6),
                            need=[9999], weight=35, small_index_fork=64, time_budget=900 if q else 3000))
                i += 1
    return jl


def c08_jobs(tier, seed):
    jl = long_jobs(tier, seed)
    q = tier == "quick"
    SINKS = ("utf16", "utf8", "str", "String")
    k = 0
    for (enc, nmax, ranges, pres) in dec_shapes(tier, seed):
        for pre in pres:
            for (lo, hi) in ranges:
                # quick: one replacement mode per sink kind, alternating with the shape index (sink and mode are not tied to each other)
                a = (k // 2) % 2
                confs = [(0, a), (1, 1 - a)] + ([(2, 1 - a), (3, a)][k % 2:k % 2 + 1]) if q else [(s, r) for s in range(4) for r in (0, 1)]
                k += 1
                for (s, r) in confs:
                    mn = 2 if s == 0 else 4
                    for cap in ((mn,) if q else (mn, mn + 1)):
                        for bom in ((0,) if (q and not (enc in ("UTF-8", "UTF-16LE", "windows-874") and lo == 0)) else (0, 2)):
                            jl.append(J("se_h_c08_dec", {0: E[enc], 1: 0 if lo == 0 else 1, 2: nmax, 3: s, 4: r, 5: lo, 6: hi, 7: pre, 8: bom, 9: cap,
                                                         11: 1 if q else 2, 12: 1},
                                        label="decode %s n<=%d first=%02X..%02X prefix=%d sink=%s repl=%d bom=%d cap=%d" % (enc, nmax, lo, hi, pre, SINKS[s], r, bom, cap),
                                        need=[9999], weight=30, time_budget=900 if q else 3000))
    for i, (enc, lo, hi, n, bom) in enumerate(bom_shapes(tier)):
        for (s, r) in ([(0, i % 2), (1, 1 - i % 2)] if q else [(s, r) for s in range(4) for r in (0, 1)]):
            mn = 2 if s == 0 else 4
            for cap in ((mn,) if q else (mn, mn + 1)):
                jl.append(J("se_h_c08_dec", {0: E[enc], 1: 1, 2: n, 3: s, 4: r, 5: lo, 6: hi, 7: 0, 8: bom, 9: cap, 11: 1 if q else 2, 12: 1},
                            label="decode %s behind BOM %s n<=%d first=%02X..%02X sink=%s repl=%d cap=%d" % (enc, ("", "removal", "sniffing")[bom], n, lo, hi, SINKS[s], r, cap),
                            need=[9999], weight=30, time_budget=900 if q else 3000))
    for i, (enc, base, lo, hi, b, a, pfx) in enumerate(enc_shapes(tier, seed)):
        for repl in (0, 1):
            mn = 14 if repl else 4
            for cap in ((mn,) if q else (mn, mn + 1)):
                form = (i + repl) % 2
                jl.append(J("se_h_c08_enc", {0: E[enc], 1: form, 2: repl, 3: base, 4: lo, 5: hi, 6: b, 7: a, 8: (i % 2) if form == 0 else 0, 9: pfx,
                                             11: 2, 12: cap, 15: 1},
                            label="encode %s from %s repl=%d U+%04X..U+%04X nb=%d,%d prefix<=%d cap=%d" % (enc, ("utf8", "utf16")[form], repl, base + lo, base + hi, b, a, pfx, cap),
                            need=[9999], weight=15, small_index_fork=64, time_budget=900 if q else 3000))
    return jl


PROPS["C08"] = dict(
    cfgs=["verif_c08"], level="model_checking", jobs=c08_jobs, need_global=[30, 36],
    explanation=("The documented caller loop (keep calling, re-pushing unconsumed input, until InputEmpty) is executed symbolically around the real Decoder and "
                 "Encoder at the documented minimum output capacity (decoding: 4 bytes of UTF-8 / 2 units of UTF-16; encoding: 4 bytes, 14 with replacement) "
                 "on symbolic streams/texts with symbolic cut points and an optional empty final call. Inside the driver every call that does not end the "
                 "stream is asserted to consume input or produce output, and the number of calls is asserted to stay within 4*(input units)+16, so that "
                 "a livelock shows up as a violated assertion on a finite path rather than as a timeout; the per-path instruction budget is the back-stop "
                 "and is reported as inconclusive. z3 decides every branch and assertion."),
    bounds=lambda tier: ("decoders: streams of N<=3 symbolic bytes (UTF-16LE/BE 4; ISO-2022-JP also after concrete escape prefixes), %s, capacity = minimum%s, BOM modes off and sniffing; "
                         "encoders: 0..5 ASCII + [neighbour] + one symbolic character in a window + [neighbour], two symbolic cuts + optional empty final call, capacity = minimum%s, "
                         "both source forms, slice and Vec sinks, with and without replacement"
                         % (("one symbolic cut + optional empty final call; sinks UTF-16, UTF-8 and alternately &mut str / String", "", "") if tier == "quick"
                            else ("two symbolic cuts + optional empty final call; all four sinks", " and minimum+1", " and minimum+1"))),
    outside=["streams/texts longer than the bounds", "capacities above minimum+1 (progress there follows from fewer OutputFull returns, not checked here)"],
    assumptions=ENGINE_ASSUMPTIONS + ["liveness bound taken from the property: calls <= 4*(input units)+16"],
)


def c09_jobs(tier, seed):
    jl = []
    q = tier == "quick"
    SINKS = ("utf16", "utf8", "str", "String")
    k = 0
    for (enc, nmax, ranges, pres) in dec_shapes(tier, seed):
        for pre in pres:
            for (lo, hi) in ranges:
                for s in ((k % 2,) if q else (0, 1, 2, 3)):
                    for cap in ((56, 2 if s == 0 else 4) if not q else ((56,) if k % 3 else (2 if s == 0 else 4,))):
                        for bom in ((0,) if (q and (k // 2) % 3) else (0, 2)):        # (k // 2: independent of the sink, k % 2)
                            jl.append(J("se_h_c09_dec", {0: E[enc], 1: 0 if lo == 0 else 1, 2: nmax, 3: s, 5: lo, 6: hi, 7: pre, 8: bom, 9: cap, 11: 1 if q else 2},
                                        label="decode %s n<=%d first=%02X..%02X prefix=%d sink=%s bom=%d cap(replacing run)=%d" % (enc, nmax, lo, hi, pre, SINKS[s], bom, cap),
                                        need=[9999], weight=30, time_budget=900 if q else 3000))
                k += 1
    for i, (enc, lo, hi, n, bom) in enumerate(bom_shapes(tier)):
        for s in ((i % 2,) if q else (0, 1, 2, 3)):
            for cap in ((56,) if (q and i % 3) else (56, 2 if s == 0 else 4)):
                jl.append(J("se_h_c09_dec", {0: E[enc], 1: 1, 2: n, 3: s, 5: lo, 6: hi, 7: 0, 8: bom, 9: cap, 11: 1 if q else 2},
                            label="decode %s behind BOM %s n<=%d first=%02X..%02X sink=%s cap(replacing run)=%d" % (enc, ("", "removal", "sniffing")[bom], n, lo, hi, SINKS[s], cap),
                            need=[9999], weight=30, time_budget=900 if q else 3000))
    for i, (enc, base, lo, hi, b, a, pfx) in enumerate(enc_shapes(tier, seed)):
        cheap = E[enc] in SINGLE or enc in ("x-user-defined", "UTF-8", "UTF-16LE", "replacement") or hi - lo <= 0xF
        # source form and capacity of the replacing run are varied independently (they were perfectly correlated in the quick
        # tier once: UTF-16 input never met the small capacity); cheap shapes run all four combinations
        combos = [(f, c) for f in (0, 1) for c in (60, 14)] if (cheap or not q) else [(i % 2, 14 if (i // 2) % 2 == 0 else 60)]
        for (form, cap) in combos:
            jl.append(J("se_h_c09_enc", {0: E[enc], 1: form, 3: base, 4: lo, 5: hi, 6: b, 7: a, 8: 0, 9: pfx, 11: 2, 12: cap},
                        label="encode %s from %s U+%04X..U+%04X nb=%d,%d prefix<=%d cap(replacing run)=%d" % (enc, ("utf8", "utf16")[form], base + lo, base + hi, b, a, pfx, cap),
                        need=[9999], weight=15, small_index_fork=64, time_budget=900 if q else 3000))
    return jl


PROPS["C09"] = dict(
    cfgs=["verif_c09"], level="model_checking", jobs=c09_jobs, need_global=[20, 30],
    explanation=("Twin real converters are fed the same symbolic history (same stream/text, same symbolic cut points): one through the replacing method, the other "
                 "through the *_without_replacement method plus the documented manual recovery - append one U+FFFD per Malformed result, resp. '&#' decimal ';' "
                 "per Unmappable result, and re-push the rest. The concatenated outputs are asserted equal, and for every pushed buffer the had_errors / "
                 "had_unmappables boolean of the replacing call is asserted true exactly if a substitution happened for that buffer. Only real code on both "
                 "sides. z3 decides every branch and assertion."),
    bounds=lambda tier: ("decoders: streams of N<=3 symbolic bytes (UTF-16 4; ISO-2022-JP also after escape prefixes), %s; replacing run with a large sink and with the "
                         "documented minimum (which changes where its calls end), BOM modes off and sniffing; encoders: 0..5 ASCII + [neighbour] + one symbolic "
                         "character in a window + [neighbour], two symbolic cuts, both source forms, replacing run with 60 and 14 bytes"
                         % ("one symbolic cut, sinks UTF-16/UTF-8 alternating" if tier == "quick" else "two symbolic cuts, all four sinks")),
    outside=["streams/texts longer than the bounds", "Vec sink of the encoder (C04, C08)"],
    assumptions=ENGINE_ASSUMPTIONS + ["the manual recovery procedure is the one in the documentation of DecoderResult::Malformed and EncoderResult::Unmappable"],
)



# ----------------------------------------------------------------------------------------------- C07
def c07_jobs(tier, seed):
    jl = []
    q = tier == "quick"
    rnd = random.Random(seed)
    PAIR = ("utf8 with replacement", "utf8 without replacement", "utf16 with replacement", "utf16 without replacement")
    for (enc, nmax, ranges, pres) in dec_shapes(tier, seed):
        cjk = enc in ("Big5", "EUC-KR", "Shift_JIS", "EUC-JP", "GBK", "gb18030")
        pmax = 2 if (cjk or enc in ("UTF-8", "ISO-2022-JP")) else 3
        rest = 2 if q else 3
        for pre in pres:
            for k, (lo, hi) in enumerate(ranges):
                boms = (0, 2) if (lo == 0 or (lo <= 0xEF <= hi) or (lo <= 0xFE <= hi)) and not (q and cjk and k > 1) else (0,)
                for bom in boms:
                    for pairing in ((k % 4, (k + 2) % 4) if q else range(4)):
                        jl.append(J("se_h_c07_dec", {0: E[enc], 1: pmax if pre == 0 else 1, 2: rest, 3: pairing, 5: lo, 6: hi, 7: pre, 8: bom, 9: 2},
                                    label="decode %s prefix<=%d (first %02X..%02X, escape prefix %d) then n<=%d bytes, %s, bom=%d" % (enc, pmax, lo, hi, pre, rest, PAIR[pairing], bom),
                                    need=[9999], weight=30, time_budget=900 if q else 3000))
    for i, (enc, base, lo, hi, b, a, pfx) in enumerate(enc_shapes(tier, seed)):
        for pairing in (0, 1):
            form = (i + pairing) % 2
            jl.append(J("se_h_c07_enc", {0: E[enc], 1: form, 2: pairing, 3: base, 4: lo, 5: hi, 6: b, 7: a, 9: 2},
                        label="encode %s from %s %s U+%04X..U+%04X state after neighbour %d, then neighbour %d" % (
                            enc, ("utf8", "utf16")[form], ("without replacement", "if no unmappables")[pairing], base + lo, base + hi, b, a),
                        need=[9999], weight=10, small_index_fork=64, time_budget=900 if q else 3000))
    # overflow clause: fully symbolic 64-bit lengths, every query, every encoding family, life-cycle arms via BOM mode / prefixes
    fam = ["windows-1252", "UTF-8", "UTF-16LE", "UTF-16BE", "Big5", "EUC-JP", "EUC-KR", "GBK", "gb18030", "Shift_JIS", "ISO-2022-JP", "replacement", "x-user-defined"]
    for enc in (fam if q else ENC_NAMES):
        for which in range(7):
            for (pre, bom) in ([(0, 0), (0, 2)] if which < 3 else [(0, 0)]):
                # z3 gets 15 s per query; arithmetic it cannot finish goes to cvc5 --solve-bv-as-int=sum (solver.py)
                jl.append(J("se_h_c07_overflow", {0: E[enc], 1: which, 7: pre, 8: bom, 9: 0},
                            label="%s query %d on unrestricted symbolic 64-bit lengths a<=b, bom=%d" % (enc, which, bom), need=[9999], weight=5, time_budget=900,
                            solver_timeout_ms=15000))
                if which in (0, 3):
                    jl.append(J("se_h_c07_overflow", {0: E[enc], 1: which, 7: pre, 8: bom, 9: 1},
                                label="%s query %d below 2^40: must not give up, bom=%d" % (enc, which, bom), need=[9999, 51], weight=5, time_budget=900,
                                solver_timeout_ms=15000))
    return jl


PROPS["C07"] = dict(
    cfgs=["verif_c07"], level="model_checking", jobs=c07_jobs, need_global=[40, 41, 42, 43, 50, 51],
    explanation=("Decoder: a symbolic prefix pushed with last=false in one or two calls (symbolic cut; BOM modes off and sniffing, so that the life-cycle arms with "
                 "withheld BOM bytes are entered; ISO-2022-JP also after concrete escape prefixes) brings the real decoder into an arbitrary reachable state; then "
                 "q = max_utf8_buffer_length / max_utf8_buffer_length_without_replacement / max_utf16_buffer_length (n) is asked on that very decoder and n more "
                 "symbolic bytes are decoded, with a symbolic `last`, into a destination of exactly q units: no call may return OutputFull (for the UTF-16 query "
                 "the caller's U+FFFD per error is counted). Encoder: after a neighbour character that sets the ISO-2022-JP state, q = max_buffer_length_from_* (units) "
                 "and the symbolic character plus a neighbour are encoded into exactly q bytes: never OutputFull (if_no_unmappables: whenever had_unmappables is "
                 "false). Overflow clause: each of the seven queries is executed on two fully symbolic 64-bit lengths a <= b and must return None or values that "
                 "did not wrap: f(b) = Some(y) implies f(a) = Some(x) with x <= y (a wrapped sum or product is not monotone), and below 2^40 no query may give up. "
                 "Queries whose 64-bit multiplications z3 cannot decide within 15 s are decided by cvc5 with its integer encoding of bit-vectors. z3 decides every branch and assertion."),
    bounds=lambda tier: ("decoder prefixes of <=2 symbolic bytes for the multi-byte encodings (<=3 otherwise), n <= %d further symbolic bytes, all four query/convert pairings%s; "
                         "encoder: one symbolic character in a window between two neighbours, both source forms, both query kinds; overflow: lengths are unrestricted "
                         "64-bit values, %s" % ((2, " (two per shard in the quick tier)", "13 encoding families") if tier == "quick" else (3, "", "all 40 encodings"))),
    outside=["prefixes longer than the bounds (the argument for sufficiency is that no decoder keeps more than 3 pending bytes, ISO-2022-JP 5 with its escape prefixes)",
             "real buffers near usize::MAX (only the queries are evaluated there)"],
    assumptions=ENGINE_ASSUMPTIONS + ["'no unmappable' is expressed as: the replacing call reported had_unmappables == false"],
)


# ----------------------------------------------------------------------------------------------- C16
def c16_jobs(tier, seed):
    jl = [J("se_h_c16_scalar", {}, label="is_char_bidi on every scalar value and is_utf16_code_unit_bidi on every code unit", need=[9999, 20, 21], weight=5)]
    q = tier == "quick"
    rnd = random.Random(seed)
    KIND = ("utf8 (potentially invalid)", "str", "utf16")
    if q:
        kr = [(0, 3), (14, 18), (rnd.randrange(19, 44),) * 2]
        sr = [(0, 2)]
    else:
        kr = [(0, 6), (7, 13), (14, 20), (21, 27), (28, 34), (35, 41), (42, 48)]
        sr = [(0, 3), (14, 18)]
    for kind in (0, 1, 2):
        for cl in (0, 1, 2, 3):
            w = (2 if kind == 2 else 3) + (0 if q else 1)
            if q and kind == 0:
                # a 4-byte window right after 0..3 filler characters: the only way to have exactly four bytes left
                jl.append(J("se_h_c16_window", {0: 0, 1: cl, 2: 4, 3: 0, 4: 3, 5: 0, 6: 0, 7: 1},
                            label="%s window=4 filler=%d k=0..3 s=0" % (KIND[0], cl), need=[9999], weight=60, time_budget=900))
            for (k0, k1) in kr:
                if cl == 3 and k0 > 30:
                    continue
                for (s0, s1) in sr:
                    for off in ((1,) if q else (0, 3)):
                        jl.append(J("se_h_c16_window", {0: kind, 1: cl, 2: w, 3: k0, 4: k1, 5: s0, 6: s1, 7: off},
                                    label="%s window=%d filler=%d k=%d..%d s=%d..%d off=%d" % (KIND[kind], w, cl, k0, k1, s0, s1, off), need=[9999],
                                    weight=(k1 - k0 + 1) * (s1 - s0 + 1) * (4 if kind == 0 else 2), time_budget=900 if q else 3000))
    return jl


PROPS["C16"] = dict(
    cfgs=["verif_c16"], level="model_checking", jobs=c16_jobs, need_global=[20, 21, 22, 23],
    explanation=("is_char_bidi and is_utf16_code_unit_bidi are executed symbolically on a fully symbolic scalar value / code unit and asserted equal to the documented "
                 "right-to-left block list. is_ascii, is_basic_latin, is_utf8_latin1, is_str_latin1, is_utf16_latin1, is_utf8_bidi, is_str_bidi, is_utf16_bidi and the three "
                 "check_*_for_latin1_and_bidi functions are executed on buffers consisting of k filler characters (ASCII, Latin1, non-Latin1 BMP, astral), a window of "
                 "fully symbolic units and s more filler characters, and asserted equal to the per-character definitions computed by a naive scan (is_utf8_bidi also true "
                 "for any invalid UTF-8; the combined checks equal to the combination of the separate ones). z3 decides every branch and assertion."),
    bounds=lambda tier: ("all 1,112,064 scalar values and all 65,536 code units for the two predicates; buffers: window of %s symbolic units, k filler characters before "
                         "(%s), s after (%s), four filler classes, three buffer kinds (potentially invalid UTF-8, &str, UTF-16)"
                         % (("3 (UTF-16: 2)", "k in 0..3, 14..18 and one seed-chosen value in 19..43", "0..2") if tier == "quick"
                            else ("4 (UTF-16: 3)", "k in 0..48", "0..3 and 14..18"))),
    outside=["simd-accel build", "more than one symbolic window per buffer", "buffers longer than the bounds"],
    assumptions=ENGINE_ASSUMPTIONS + ["the right-to-left block list is the one in the documentation of mem::is_char_bidi", "&str arguments are assumed valid UTF-8 (their type's invariant)"],
)


# ----------------------------------------------------------------------------------------------- C15
F8 = ["convert_utf8_to_utf16", "convert_str_to_utf16", "convert_utf8_to_utf16_without_replacement", "convert_latin1_to_utf16", "convert_latin1_to_utf8",
      "convert_latin1_to_str", "convert_latin1_to_utf8_partial", "convert_latin1_to_str_partial", "convert_utf8_to_latin1_lossy", "decode_latin1",
      "encode_latin1_lossy", "copy_ascii_to_ascii", "copy_ascii_to_basic_latin"]
F16 = ["convert_utf16_to_utf8", "convert_utf16_to_str", "convert_utf16_to_utf8_partial", "convert_utf16_to_str_partial", "convert_utf16_to_latin1_lossy",
       "ensure_utf16_validity", "copy_basic_latin_to_ascii"]


def c15_jobs(tier, seed):
    jl = []
    q = tier == "quick"
    rnd = random.Random(seed)
    pres = [0, 1, 15, 16, 17, rnd.randrange(18, 40)] if q else [0, 1, 2, 7, 8, 15, 16, 17, 24, 31, 32, 33, 40]
    for f, name in enumerate(F8):
        partial = "partial" in name
        for pre in pres:
            nmax = 3 if (q or partial) else 4
            if partial and pre > 17 and q:
                continue
            for delta in ((0,) if (q or partial) else (0, 1)):
                jl.append(J("se_h_c15_from8", {0: f, 1: nmax, 2: pre, 3: delta}, label="%s: %d ASCII + n<=%d symbolic bytes, dst = sufficient+%d%s" % (
                    name, pre, nmax, delta, " (partial: every dst length 0..=sufficient+1)" if partial else ""), need=[9999],
                    weight=(40 if partial else 10) + pre, time_budget=900 if q else 3000))
    for f, name in enumerate(F16):
        partial = "partial" in name
        for pre in pres:
            nmax = 3
            if partial and pre > 17 and q:
                continue
            for delta in ((0,) if (q or partial) else (0, 1)):
                jl.append(J("se_h_c15_from16", {0: f, 1: nmax, 2: pre, 3: delta}, label="%s: %d ASCII + n<=%d symbolic units, dst = sufficient+%d%s" % (
                    name, pre, nmax, delta, " (partial: every dst length 0..=sufficient+1)" if partial else ""), need=[9999],
                    weight=(40 if partial else 10) + pre, time_budget=900 if q else 3000))
    # a concrete two-, three- or four-byte character (one BMP unit / a surrogate pair) between the filler and the symbolic tail: the
    # loops re-enter their "next lead" logic differently after each sequence length; n <= 4 so that a whole astral character fits the tail
    LATIN1_ONLY = ("convert_utf8_to_latin1_lossy", "convert_utf16_to_latin1_lossy", "encode_latin1_lossy")
    ASCII_ONLY = ("copy_ascii_to_ascii", "copy_ascii_to_basic_latin", "copy_basic_latin_to_ascii")
    for (names, h) in ((F8, "se_h_c15_from8"), (F16, "se_h_c15_from16")):
        for f, name in enumerate(names):
            if name in ASCII_ONLY or name.startswith("convert_latin1") or name == "decode_latin1":
                continue            # byte-wise functions: no multi-unit sequences
            partial = "partial" in name
            for lead in ((1,) if name in LATIN1_ONLY else (1, 2, 3)):
                for pre in ((0, 14) if q else (0, 1, 13, 14, 15, 16)):
                    if q and partial and pre:
                        continue
                    nmax = 3 if (partial or h == "se_h_c15_from16") else 4
                    jl.append(J(h, {0: f, 1: nmax, 2: pre, 3: 0, 4: lead}, label="%s: %d ASCII + a concrete %s + n<=%d symbolic units, dst = sufficient" % (
                        name, pre, ("", "two-byte character", "three-byte character", "astral character")[lead], nmax), need=[9999],
                        weight=(40 if partial else 20) + pre, time_budget=900 if q else 3000))
    return jl


PROPS["C15"] = dict(
    cfgs=["verif_c15"], level="model_checking", jobs=c15_jobs, need_global=[20, 21, 22, 24, 25],
    explanation=("Each of the 20 public conversions of encoding_rs::mem (convert_*, copy_*, ensure_utf16_validity, decode_latin1, encode_latin1_lossy) is executed symbolically "
                 "on a source consisting of an ASCII filler of concrete length (chosen around the 16-unit stride) followed by n fully symbolic units, into a destination of the "
                 "documented sufficient size (for the *_partial forms: every destination length from 0 to sufficient+1, symbolic). The result is asserted equal to naive "
                 "reference conversions: one U+FFFD per maximal ill-formed UTF-8 subpart / unpaired surrogate, None exactly for invalid input, copy_* stop at the first "
                 "non-ASCII unit, Cow::Borrowed exactly for ASCII input; *_partial: read/written consistent, read on a character boundary (never inside a pair), the next "
                 "character really does not fit, the unit just beyond the destination untouched; *_to_str*: the whole &mut str valid afterwards. Documented preconditions "
                 "(valid &str, Latin1-only input for the lossy Latin1 forms) are assumed exactly as documented. z3 decides every branch and assertion."),
    bounds=lambda tier: ("n <= 3 fully symbolic units%s after an ASCII filler of %s units; destination exactly sufficient%s; partial forms: all destination lengths"
                         % (("", "0, 1, 15, 16, 17 and one seed-chosen length in 18..39", "") if tier == "quick" else (" (4 for the non-partial UTF-8 sources)", "0..40 (13 lengths around the strides)", " and sufficient+1"))),
    outside=["simd-accel build (where the 'unmodified beyond written' guarantee is known to differ: DESIGN.md F5, not reachable by this engine)", "sources with more than n symbolic units",
             "destinations larger than sufficient+1"],
    assumptions=ENGINE_ASSUMPTIONS + ["documented preconditions assumed: &str valid UTF-8; convert_utf8_to_latin1_lossy / convert_utf16_to_latin1_lossy / encode_latin1_lossy only on input in U+0000..U+00FF",
                                      "lossy UTF-8 conversion = one U+FFFD per maximal ill-formed subpart (WHATWG UTF-8 decoder practice)"],
)


# ----------------------------------------------------------------------------------------------- C13
def c13_jobs(tier, seed):
    q = tier == "quick"
    rnd = random.Random(seed)
    jl = [J("se_h_c13_short", {1: 3 if q else 4}, label="every byte string of length <= %d" % (3 if q else 4), need=[9999, 20, 21], weight=100, time_budget=900 if q else 6000),
          J("se_h_c13_names", {}, label="name() of all 40 encodings resolves to itself; longest label + 2 symbolic bytes (cut-off)", need=[9999, 20, 21], weight=5)]
    MODE = ("substituted", "deleted", "inserted")
    for k in range(228):
        for mode in (0, 1, 2):
            jl.append(J("se_h_c13_near", {0: k, 1: mode}, label="label #%d with one symbolic position %s (symbolic byte, all 256 values)" % (k, MODE[mode]), need=[9999], weight=2))
    for k in (sorted(rnd.sample(range(228), 40)) if q else range(228)):
        jl.append(J("se_h_c13_pad", {0: k, 2: 1, 3: 1}, label="label #%d with 0..1 symbolic padding bytes (all 256 values) before and after" % k, need=[9999], weight=20,
                    time_budget=900 if q else 3000))
    # two arbitrary padding bytes on one side (e.g. genuine whitespace followed by a non-whitespace look-alike such as VT)
    for k in (sorted(rnd.sample(range(228), 16)) if q else range(228)):
        jl.append(J("se_h_c13_pad", {0: k, 2: 2, 3: 0}, label="label #%d with 0..2 symbolic padding bytes before" % k, need=[9999], weight=30, time_budget=900 if q else 3000))
        jl.append(J("se_h_c13_pad", {0: k, 2: 0, 3: 2}, label="label #%d with 0..2 symbolic padding bytes after" % k, need=[9999], weight=30, time_budget=900 if q else 3000))
    return jl


PROPS["C13"] = dict(
    cfgs=["verif_c13"], level="model_checking", jobs=c13_jobs, need_global=[20, 21],
    explanation=("Encoding::for_label and for_label_no_replacement are executed symbolically on byte strings with symbolic bytes and their results asserted equal to the "
                 "Standard's 'get an encoding': strip leading/trailing TAB, LF, FF, CR, SPACE, ASCII-lowercase, then a linear scan over the 228 label/encoding pairs of the "
                 "repository's generated test list (independent of the sorted tables and the binary search under test). Shapes: every byte string up to length N; every "
                 "label with one symbolic position substituted (covers every single case flip), deleted or inserted with a symbolic byte; labels with symbolic padding bytes "
                 "drawn from all 256 values; the longest label plus two symbolic bytes (the 19-byte cut-off); name() round trip for all 40 encodings. z3 decides every branch "
                 "and assertion."),
    bounds=lambda tier: ("all byte strings of length <= %d; all 228 labels x {substitute, delete, insert} x every position x all 256 byte values; %s labels with 0..1 arbitrary "
                         "padding bytes on each side and %s with 0..2 arbitrary padding bytes on one side; longest label + 2 arbitrary bytes" % ((3, "40 seed-chosen", "16 seed-chosen") if tier == "quick" else (4, "all 228", "all 228"))),
    outside=["more than one edit per label", "padding longer than one byte per side combined with arbitrary padding bytes", "arbitrary strings longer than the bound"],
    assumptions=ENGINE_ASSUMPTIONS + ["the label list of src/test_labels_names.rs (generated upstream from encodings.json) is the Standard's label table"],
)


# ----------------------------------------------------------------------------------------------- C20
def c20_jobs(tier, seed):
    q = tier == "quick"
    jl = [J("se_h_c20_identity", {}, label="output_encoding idempotent / used by new_encoder and encode; ==, name() identify exactly 40 instances", need=[9999], weight=5)]
    not_ascii = {"UTF-16BE", "UTF-16LE", "ISO-2022-JP", "replacement"}
    utf8_out = {"UTF-8", "UTF-16BE", "UTF-16LE", "replacement"}
    single = set(ENC_NAMES[i] for i in SINGLE) | {"x-user-defined"}
    two_byte_win = {"Big5": 0x4E00, "EUC-JP": 0x3040, "EUC-KR": 0xAC00, "GBK": 0x4E00, "gb18030": 0x4E00, "Shift_JIS": 0x3040, "ISO-2022-JP": 0x3040}
    unmappable_win = {"gb18030": 0xE5C0, "GBK": 0x0080, "Big5": 0x0080, "EUC-JP": 0x0080, "EUC-KR": 0x0080, "Shift_JIS": 0x0100, "ISO-2022-JP": 0x0080}
    for i, enc in enumerate(ENC_NAMES):
        # 0: ASCII bytes decode to themselves
        jl.append(J("se_h_c20_pred", {0: i, 1: 0}, label="%s: bytes 00-7F decode to U+0000-U+007F (is_ascii_compatible=%s)" % (enc, enc not in not_ascii),
                    need=[], expect_fail_if_reached={71: [41]}, weight=2))
        # 1: ASCII characters encode to the same bytes (in the output encoding)
        out_not_ascii = enc == "ISO-2022-JP"
        jl.append(J("se_h_c20_pred", {0: i, 1: 1}, label="%s: U+0000-U+007F encode to the same single bytes" % enc, need=[], expect_fail_if_reached={71: [43]}, weight=2))
        # 2: two bytes decode to two units
        sb = enc in single
        jl.append(J("se_h_c20_pred", {0: i, 1: 2, 7: 5 if enc == "ISO-2022-JP" else 0},
                    label="%s: every 2-byte string%s decodes to as many UTF-16 units as bytes (is_single_byte=%s)" % (enc, " after ESC $ B" if enc == "ISO-2022-JP" else "", sb), need=[9999],
                    expect_fail_if_reached={71: [45]}, weight=20, time_budget=900))
        # 3: mappable characters encode to one byte
        if sb:
            wins = [(0, 0x0000, 0xFFFF)] if not q else [(0, 0x0000, 0x07FF), (0, 0x2000, 0x27FF)]
            for (b, lo, hi) in wins:
                jl.append(J("se_h_c20_pred", {0: i, 1: 3, 3: b, 4: lo, 5: hi}, label="%s: every mappable character in U+%04X..U+%04X encodes to one byte" % (enc, b + lo, b + hi), need=[9999], weight=8,
                            expect_fail_if_reached={71: [47]}, small_index_fork=64))
        else:
            w = two_byte_win.get(enc, 0x0080)
            jl.append(J("se_h_c20_pred", {0: i, 1: 3, 3: 0, 4: w, 5: w + 0x3F}, label="%s: some mappable character needs more than one byte (witness required)" % enc, need=[9999],
                        expect_fail_if_reached={71: [47]}, weight=8, small_index_fork=64))
        # 4: nothing is unmappable
        if enc in utf8_out:
            for (b, lo, hi) in ([(0, 0, 0xFFFF), (0x10000, 0, 0xFFFF), (0x100000, 0, 0xFFFF)] if not q else [(0, 0, 0xFFFF), (0x100000, 0xF000, 0xFFFF)]):
                jl.append(J("se_h_c20_pred", {0: i, 1: 4, 3: b, 4: lo, 5: hi}, label="%s: no scalar value in U+%04X..U+%04X is unmappable (can_encode_everything)" % (enc, b + lo, b + hi), need=[9999], weight=4,
                            expect_fail_if_reached={71: [49]} if (b, lo) == (0, 0) else {}))
        else:
            w = unmappable_win.get(enc, 0x4E00)
            jl.append(J("se_h_c20_pred", {0: i, 1: 4, 3: 0, 4: w, 5: w + 0x3F}, label="%s: some scalar value is unmappable (witness required)" % enc, need=[9999], expect_fail_if_reached={71: [49]}, weight=6,
                        small_index_fork=64))
    return jl


PROPS["C20"] = dict(
    cfgs=["verif_c20"], level="model_checking", jobs=c20_jobs,
    explanation=("For each of the 40 encodings the universal statement behind each metadata predicate is asserted on the real converters executed symbolically: bytes 00-7F decode to "
                 "themselves and encode back (is_ascii_compatible), every 2-byte string decodes to exactly 2 UTF-16 units and every mappable character encodes to one byte "
                 "(is_single_byte), no scalar value is unmappable (can_encode_everything). Where the predicate is documented true the statement must hold for every value of the "
                 "symbolic input (z3: unsat on every path); where the predicate's value AT RUN TIME is false the check REQUIRES a counterexample - a solver witness that is replayed against "
                 "the native build - so a flag flipped in either direction is caught (flipped to true: the universal statement is refuted; flipped to false: "
                 "no witness exists). output_encoding() idempotence, its use by new_encoder() and encode(), and ==/name() identity over "
                 "the 40 instances are checked concretely."),
    bounds=lambda tier: ("all 128 ASCII bytes/characters; all 65,536 two-byte strings per encoding (ISO-2022-JP: after the three-byte escape ESC $ B, as the property's quantifier prescribes); encode statements over %s; ∃-side witnesses searched in one 64-wide window per encoding"
                         % ("U+0000..U+07FF and U+2000..U+27FF for the single-byte encodings, the BMP and the last 4096 code points for the UTF-8 output encodings" if tier == "quick"
                            else "the whole BMP for the single-byte encodings, planes 0, 1 and 16 for the UTF-8 output encodings")),
    outside=["byte strings longer than 2 (longer strings of a single-byte decoder are covered by C01/C02)", "Hash (derived from the same pointer identity as ==; not executed)"],
    assumptions=ENGINE_ASSUMPTIONS + ["errors count as one U+FFFD code unit in the 'as many units as bytes' statement (replacing decode)"],
)


# ----------------------------------------------------------------------------------------------- C17
ALT_FEATURES = {"fast": "std,fast-legacy-encode",
                "lessslow": "std,less-slow-kanji-encode,less-slow-big5-hanzi-encode,less-slow-gb-hanzi-encode"}


def c17_jobs(tier, seed):
    """the C03 character jobs of the seven encoders whose lookup helpers are cfg-switched, executed on the IR of the
    alternative feature sets: each build is compared with the same reference on the same windows, hence with each other
    and with the default build (C03)"""
    q = tier == "quick"
    rnd = random.Random(seed)
    base = [j for j in c03_jobs(tier, seed) if j["harness"] == "se_h_c03_char" and ENC_NAMES[j["params"][0]] in CJK_ENC
            and j["params"][6] == 0 and j["params"][7] == 0]
    jl = []
    for key in ALT_FEATURES:
        sel = base
        if q:
            # quick: the windows that contain hanzi / kanji / hangul / hanja (where the alternative tables are used) + a seeded sample
            hot = [j for j in base if j["params"][3] == 0 and j["params"][4] in (0x0000, 0x2000, 0x2400, 0x3000, 0x4E00, 0x5000, 0x9C00, 0xAC00, 0xF800, 0xFC00)]
            rest = [j for j in base if j not in hot]
            sel = hot + rnd.sample(rest, min(len(rest), 40))
        for j in sel:
            k = dict(j)
            k["ir"] = key
            k["label"] = "[%s] %s" % (ALT_FEATURES[key], j["label"])
            # the hanzi / hangul windows are the point of this check and by far its longest jobs (GBK on the less-slow build: minutes)
            if k["params"][3] == 0 and 0x4E00 <= k["params"][4] < 0xD800:
                k["prio"] = 0
                k["weight"] = 90 if ENC_NAMES[k["params"][0]] in ("GBK", "gb18030") else 60
            jl.append(k)
    return jl


PROPS["C17"] = dict(
    cfgs=["verif_c03"], level="model_checking", jobs=c17_jobs, need_global=[20, 21],
    irs={k: ("release", v) for k, v in ALT_FEATURES.items()},
    explanation=("Two further whole-program IR modules are built from the same scratch copy with the feature sets 'fast-legacy-encode' and 'less-slow-kanji-encode, "
                 "less-slow-big5-hanzi-encode, less-slow-gb-hanzi-encode', which swap in separate tables and lookup functions for the legacy CJK encoders. The C03 character "
                 "harness (real Encoder through the public API, from UTF-8 and UTF-16, with and without replacement, one symbolic character per window) is executed on both "
                 "modules against the same transcribed reference encoder as the default build in C03: every build is decided equal to the same reference on the same windows, hence "
                 "the builds are equal to one another there. z3 decides every branch and assertion per path."),
    bounds=lambda tier: ("the seven CJK encoders (Big5, EUC-JP, EUC-KR, GBK, gb18030, Shift_JIS, ISO-2022-JP) x the character windows of C03's %s tier%s, both alternative feature sets"
                         % (tier, " restricted to the Latin/symbol, hanzi/kanji/hangul/hanja and compatibility windows plus 40 seed-chosen jobs per feature set" if tier == "quick" else "")),
    outside=["simd-accel (+std) on a nightly compiler: its kernels are portable_simd vector code, for which llsym has no semantics - not reachable by this technique in this sandbox",
             "SIMD-validator path vs built-in scalar path of UTF-8 validation: only the scalar side is executed (C14); simdutf8's kernels are x86 intrinsics",
             "decoders and mem functions: no code of theirs is cfg-switched by the legacy-encode features"],
    assumptions=ENGINE_ASSUMPTIONS + ["equality between builds is established through equality of each build with the same reference encoder on the same inputs"],
)


# ----------------------------------------------------------------------------------------------- C05 / C06 (C08 harness with flags), C18, C19
def c05_jobs(tier, seed):
    """decoder shapes of C08 with the well-formedness flag, &mut str sinks pre-filled with valid multi-byte text at three phases,
    String sinks with existing content; capacities minimum..minimum+3 so that `written` lands at every offset inside an old character"""
    jl = []
    q = tier == "quick"
    SINKS = ("utf16", "utf8", "str", "String")
    k = 0
    for (enc, nmax, ranges, pres) in dec_shapes(tier, seed):
        for pre in pres:
            for (lo, hi) in ranges:
                for (s, r) in [(2, 1), (2, 0), (3, 1), (0, 0), (1, 1)] if not q else [(2, k % 2), (3, (k + 1) % 2), (k % 2, k % 2)]:
                    mn = 2 if s == 0 else 4
                    for cap in ((mn + k % 4,) if q else (mn, mn + 1, mn + 2, mn + 3)):
                        for phase in ((1 + k % 3,) if (q or s != 2) else (1, 2, 3)):
                            jl.append(J("se_h_c08_dec", {0: E[enc], 1: 0 if lo == 0 else 1, 2: min(nmax, 3), 3: s, 4: r, 5: lo, 6: hi, 7: pre, 8: 0, 9: cap, 11: 1, 12: 1,
                                                         13: 3, 14: phase if s == 2 else 0},
                                        label="decode %s n<=%d first=%02X..%02X prefix=%d sink=%s repl=%d cap=%d str-prefill phase=%d" % (enc, min(nmax, 3), lo, hi, pre, SINKS[s], r, cap, phase),
                                        need=[9999], weight=30, time_budget=900 if q else 3000))
                k += 1
    # large &mut str destinations: the bytes far beyond `written` (beyond the 16-byte stride window) must stay valid too
    for enc in (("windows-1252", "UTF-8", "Big5", "ISO-2022-JP", "UTF-16LE") if q else [s[0] for s in dec_shapes(tier, seed) if s[3] == [0]]):
        for r in (0, 1):
            for cap in ((30, 37) if q else (24, 30, 36, 37, 44)):
                for phase in (1, 2, 3):
                    lo, hi = (0, 0x7F) if enc != "UTF-16LE" else (0, 0xFF)
                    jl.append(J("se_h_c08_dec", {0: E[enc], 1: 0, 2: 2, 3: 2, 4: r, 5: lo, 6: hi, 7: 0, 8: 0, 9: cap, 11: 0, 12: 0, 13: 3, 14: phase},
                                label="decode %s n<=2 (ASCII first byte) into a %d-byte &mut str pre-filled at phase %d, repl=%d" % (enc, cap, phase - 1, r), need=[9999], weight=10))
    # mem::convert_*_to_str* leave the whole &mut str valid: asserted in the C15 harness (ids 6) - run its str functions here too
    for f in (5, 7):
        for pre in (0, 15, 16):
            jl.append(J("se_h_c15_from8", {0: f, 1: 3, 2: pre, 3: 0}, label="%s: whole &mut str valid afterwards, %d ASCII + 3 symbolic bytes" % (F8[f], pre), need=[9999], weight=20))
    for f in (1, 3):
        for pre in (0, 15, 16):
            jl.append(J("se_h_c15_from16", {0: f, 1: 3, 2: pre, 3: 0}, label="%s: whole &mut str valid afterwards, %d ASCII + 3 symbolic units" % (F16[f], pre), need=[9999], weight=20))
    return jl


PROPS["C05"] = dict(
    cfgs=["verif_c08", "verif_c15"], level="model_checking", jobs=c05_jobs, need_global=[30],
    explanation=("The documented caller loop around the real Decoder is executed symbolically (streams of N symbolic bytes, one symbolic cut, optional empty final call) with, "
                 "after EVERY call: the units reported as written are well-formed UTF-8 / UTF-16 on their own (whole characters only); for decode_to_str* the destination &mut str, "
                 "pre-filled with valid multi-byte text (3-byte characters at phase 0, 1 or 2, so that `written` lands inside an old character), is valid UTF-8 in its entirety; "
                 "for decode_to_string* the String (which starts with existing non-ASCII content) is valid, keeps its content and capacity. mem::convert_utf16_to_str(_partial) and "
                 "convert_latin1_to_str(_partial) are executed with the C15 harness, which asserts whole-buffer validity. Validity is a naive reference predicate; z3 decides every "
                 "branch and assertion."),
    bounds=lambda tier: ("decoder streams of N<=3 symbolic bytes over the shapes of C08 (all encoding families, ISO-2022-JP escape prefixes), one symbolic cut + optional empty final call, "
                         "capacities minimum..minimum+3, sinks &mut str (pre-fill phases 0..2), String, and one slice sink; mem str functions: 0/15/16 ASCII + 3 symbolic units"
                         + (" (quick: one capacity, phase and sink/mode combination per shard, rotating)" if tier == "quick" else "")),
    outside=["simd-accel build (listed in the property's quantifier; vector IR is not executable by llsym)", "the finished-decoder panic path (the path ends at the panic entry; the String is not "
             "inspected afterwards)", "Cow results of the one-shot API (C11)"],
    assumptions=ENGINE_ASSUMPTIONS,
)


def c06_jobs(tier, seed):
    """C08 shapes at the documented minimum with guard units beyond the capacity and pre-existing String / Vec content; plus the mem
    functions of C15 (guards beyond the destination) and a subset on the IR built with debug assertions and overflow checks"""
    jl = []
    q = tier == "quick"
    for j in c08_jobs(tier, seed):
        k = dict(j)
        k["params"] = dict(j["params"])
        k["params"][13] = 2
        k["label"] = "[guards, existing String/Vec content] " + j["label"]
        jl.append(k)
    for j in c15_jobs(tier, seed):
        if q and j["params"][2] not in (0, 16):
            continue
        jl.append(dict(j))
    # destinations BELOW the documented minimum (0..min-1 units, symbolic): the calls may stall or panic, but must stay inside the
    # buffers they were given and honour read <= src.len(), written <= dst.len()
    n = 0
    for j in c08_jobs(tier, seed):
        dec = j["harness"] == "se_h_c08_dec"
        if j["harness"] not in ("se_h_c08_dec", "se_h_c08_enc"):
            continue
        n += 1
        capk = 9 if dec else 12
        mn = (2 if j["params"][3] == 0 else 4) if dec else (14 if j["params"][2] else 4)
        if j["params"][capk] != mn or (q and n % 2):
            continue
        if not dec and ENC_NAMES[j["params"][0]] in ("GBK", "gb18030", "EUC-KR", "Big5") and j["params"][4] in (0x4E00, 0xAC00):
            continue                      # the slow hanzi / hangul windows add nothing here: the space checks do not depend on the table hit
        k = dict(j)
        k["params"] = dict(j["params"])
        k["params"][13] = 4
        k["params"][capk] = mn - 1
        if dec:
            k["params"][14] = 0
        k["label"] = "[destination below the documented minimum: 0..%d units] %s" % (mn - 1, j["label"])
        k["tolerate_panic"] = True
        k["need"] = [9999]
        jl.append(k)
    # debug-assertions + overflow-checks build: crate debug_assert!s and core's unsafe-precondition checks become reachable panics
    rnd = random.Random(seed)
    base = [j for j in jl if j["harness"] in ("se_h_c08_dec", "se_h_c08_enc") and not j.get("tolerate_panic") and ENC_NAMES[j["params"][0]] in
            ("windows-1252", "UTF-8", "UTF-16LE", "Big5", "gb18030", "ISO-2022-JP", "Shift_JIS", "EUC-KR", "x-user-defined")]
    longs = [j for j in jl if j["harness"] in ("se_h_c08_long", "se_h_c08_long_enc")]
    for j in (rnd.sample(base, min(len(base), 40)) + longs[::3] if q else base + longs):
        k = dict(j)
        k["ir"] = "checked"
        k["label"] = "[debug-assertions build] " + j["label"]
        jl.append(k)
    for j in c15_jobs(tier, seed):
        if j["params"][2] in (0, 16) and (not q or j["params"][0] % 2 == 0):
            k = dict(j)
            k["ir"] = "checked"
            k["label"] = "[debug-assertions build] " + j["label"]
            jl.append(k)
    return jl


PROPS["C06"] = dict(
    cfgs=["verif_c08", "verif_c15"], level="model_checking", jobs=c06_jobs, need_global=[30, 36, 37],
    irs={"release": ("release", "std"), "checked": ("checked", "std")},
    explanation=("Memory safety and the read/written contract are built-in checks of the executor on EVERY path of EVERY harness of every property: each load, store, memcpy and memset "
                 "must lie inside a live object (symbolic offsets are decided by z3), no write to a constant, no 'unreachable', every llvm.assume implied by the path condition, no "
                 "branch on uninitialised data; and every driver asserts read <= src.len(), written <= dst.len(), InputEmpty => everything consumed. This check adds the geometry the "
                 "others do not vary: the caller loops of C08 at the documented minimum capacity with guard units beyond the offered capacity (must stay untouched), String / Vec sinks "
                 "that start with existing content (content and capacity must survive), the mem functions with a guard unit beyond the destination; any panic on a path that respects "
                 "the documented minimum sizes is a violation. A subset is executed a second time on IR built with debug-assertions and overflow-checks, where the crate's "
                 "debug_assert!s and core's unsafe-precondition checks (get_unchecked, from_u32_unchecked, ...) are reachable panics. This check rediscovered the defects repaired in "
                 "5708c4c and 575fbfd (known_findings.json)."),
    bounds=lambda tier: ("the call histories of C08 (streams of N<=3..4 symbolic bytes / texts with one symbolic character, symbolic cuts, minimum capacity%s) and the mem shapes of C15%s; "
                         "both IR flavours" % ((", quick tier", " with 0 and 16 filler units; 40 seed-chosen histories on the debug-assertions build") if tier == "quick" else (" and minimum+1", ""))),
    outside=["simd-accel build", "source/destination lengths beyond the bounds ('large' buffers, lengths around 100)", "start alignment is varied only through the filler offsets of C14/C16 and the "
             "stack/heap placement of the harness buffers: ascii.rs has no alignment-dependent path in the default build"],
    assumptions=ENGINE_ASSUMPTIONS + ["documented minimum sizes: decoding 4 bytes (UTF-8) / 2 units (UTF-16); encoding 4 bytes, 14 with replacement; mem functions: the sizes in their documentation"],
)


def c18_jobs(tier, seed):
    jl = []
    q = tier == "quick"
    SINKS = ("utf16", "utf8", "str")
    k = 0
    for (enc, nmax, ranges, pres) in dec_shapes(tier, seed):
        n1 = min(nmax, 2 if (q and enc in ("UTF-8", "windows-1252", "windows-874", "UTF-16LE", "UTF-16BE", "ISO-2022-JP")) else 3)
        for pre in pres:
            for (lo, hi) in ranges:
                # slice sinks only: arbitrary symbolic bytes are not a valid prior content of a &mut str (its pre-fills are C05's subject)
                if (lo, hi) == (0xF0, 0xF4):
                    if q:
                        continue                  # four symbolic bytes + symbolic pre-fills: > 12 minutes for one job; thorough only
                    n1 = nmax                     # the shard of complete four-byte UTF-8 sequences
                for (s, r) in ([(k % 2, (k // 2) % 2)] if q else [(s, r) for s in range(2) for r in (0, 1)]):
                    mn = 2 if s == 0 else 4
                    cap = mn + (k // 4) % 2          # (k // 4: independent of sink, k % 2, and replacement, (k // 2) % 2)
                    jl.append(J("se_h_c18_dec", {0: E[enc], 1: 0 if lo == 0 else 1, 2: n1, 3: s, 4: r, 5: lo, 6: hi, 7: pre, 8: 0 if k % 3 else 2, 9: cap, 11: 1},
                                label="decode %s n<=%d first=%02X..%02X prefix=%d sink=%s repl=%d cap=%d, twin symbolic pre-fills" % (enc, n1, lo, hi, pre, SINKS[s], r, cap),
                                need=[9999], weight=30, time_budget=900 if q else 3000))
                k += 1
    for i, (enc, lo, hi, n, bom) in enumerate(bom_shapes(tier)):
        for (s, r) in ([(i % 2, (i // 2) % 2), ((i + 1) % 2, (i // 2) % 2)] if q else [(s, r) for s in range(2) for r in (0, 1)]):
            mn = 2 if s == 0 else 4
            for cap in ((mn + i % 2,) if q else (mn, mn + 1, mn + 3)):
                jl.append(J("se_h_c18_dec", {0: E[enc], 1: 1, 2: n, 3: s, 4: r, 5: lo, 6: hi, 7: 0, 8: bom, 9: cap, 11: 1},
                            label="decode %s behind BOM %s n<=%d first=%02X..%02X sink=%s repl=%d cap=%d, twin symbolic pre-fills" % (
                                enc, ("", "removal", "sniffing")[bom], n, lo, hi, SINKS[s], r, cap),
                            need=[9999], weight=30, time_budget=900 if q else 3000, **({"mem_gb": 10} if enc == "gb18030" else {})))
    LADDER = ((0, 0x03E0), (0, 0x2708), (0x10000, 0x8698), (0xF0000, 0x4238))
    for i, (enc, base, lo, hi, b, a, pfx) in enumerate(enc_shapes(tier, seed)):
        # the NCR length-ladder windows exist for the with-replacement path: always run them with replacement
        for repl in ((1,) if (base, lo) in LADDER else ((i // 2) % 2,) if q else (0, 1)):     # independent of the source form (i % 2)
            jl.append(J("se_h_c18_enc", {0: E[enc], 1: i % 2, 2: repl, 3: base, 4: lo, 5: hi, 6: b, 7: a, 9: min(pfx, 3), 12: (14 if repl else 4) + i % 3},
                        label="encode %s from %s repl=%d U+%04X..U+%04X nb=%d,%d, twin symbolic pre-fills" % (enc, ("utf8", "utf16")[i % 2], repl, base + lo, base + hi, b, a),
                        need=[9999], weight=10, small_index_fork=64, time_budget=900 if q else 3000))
    jl += long_jobs(tier, seed, symfill=True)
    for f in range(6):
        for pre in ((0, 15, 16) if q else (0, 1, 15, 16, 17, 31)):
            jl.append(J("se_h_c18_mem", {0: f, 1: 2 if q else 3, 2: pre}, label="mem function %d: %d ASCII + symbolic units, twin symbolic pre-fills" % (f, pre), need=[9999], weight=10))
    return jl


PROPS["C18"] = dict(
    cfgs=["verif_c18", "verif_c08"], level="model_checking", jobs=c18_jobs, need_global=[30],
    explanation=("Self-composition: each call history is executed on twin real converters whose destinations are pre-filled, before every call, with two independent sets of fresh "
                 "SYMBOLIC units. All return values, the number of calls, had_errors and the written prefixes must be equal for every value of both fills - which is stronger than three "
                 "fixed fill patterns: any unit of the written prefix that the call did not store, or any decision computed from old destination contents, makes the equality "
                 "refutable. Decoder and encoder caller loops at small capacities and six mem conversions are covered. For the String / Vec sinks the spare capacity is uninitialised "
                 "memory in the executor's memory model: a branch on it, or a unit exposed by set_len without having been stored, is flagged by the built-in checks in every run of "
                 "C02 / C04 / C05 / C06 / C08 with those sinks."),
    bounds=lambda tier: ("decoder streams of N<=3 symbolic bytes (quick: 2 for the encodings with many data paths), one symbolic cut, capacity minimum or minimum+1, UTF-16 and UTF-8 slice sinks; "
                         "encoder texts with one symbolic character in a window; mem: 0/15/16 ASCII + 2 symbolic units (thorough: 3, six filler lengths)"),
    outside=["simd-accel build", "histories longer than the bounds"],
    assumptions=ENGINE_ASSUMPTIONS,
)


def c19_jobs(tier, seed):
    jl = []
    q = tier == "quick"
    rnd = random.Random(seed)
    kr = [(0, 3), (14, 18)] if q else [(0, 6), (7, 13), (14, 20), (28, 34)]
    for (enc, nmax, ranges, pres) in dec_shapes(tier, seed):
        cjk = enc in ("Big5", "EUC-KR", "Shift_JIS", "EUC-JP", "GBK", "gb18030")
        pmax = 1 if (cjk or enc == "UTF-8") and q else 2
        for pre in pres:
            for (lo, hi) in ranges:
                if q and cjk and lo == 0:
                    continue
                for bom in ((0, 2) if (lo == 0 or lo <= 0xEF <= hi) else (0,)):
                    for (k0, k1) in (kr if not (q and cjk) else kr[:1]):
                        jl.append(J("se_h_c19", {0: E[enc], 1: pmax if pre == 0 else 0, 2: 2, 3: k0, 4: k1, 5: lo, 6: hi, 7: pre, 8: bom, 9: 2},
                                    label="%s state after prefix<=%d (first %02X..%02X, escape prefix %d), bom=%d; buffer = %d..%d ASCII + 2 symbolic + 0..2 ASCII" % (enc, pmax, lo, hi, pre, bom, k0, k1),
                                    need=[9999], weight=30, time_budget=900 if q else 3000))
    # ISO-2022-JP: every shift state entered by a concrete escape and then left "settled" by one more symbolic byte (right after an
    # escape the output flag alone answers None): Roman passes ASCII through except 5C / 7E, katakana and JIS X 0208 nothing
    for pre in ((1, 2, 3, 5, 6) if q else range(1, 15)):
        for (k0, k1) in kr[:1] if q else kr:
            jl.append(J("se_h_c19", {0: E["ISO-2022-JP"], 1: 1 if q else 2, 2: 2, 3: k0, 4: k1, 5: 0, 6: 255, 7: pre, 8: 0, 9: 2},
                        label="ISO-2022-JP state after escape prefix %d + <=%d symbolic bytes; buffer = %d..%d ASCII + 2 symbolic + 0..2 ASCII" % (pre, 1 if q else 2, k0, k1),
                        need=[9999], weight=30, time_budget=900 if q else 3000))
    # query point right after a Malformed return (deferred outputs such as gb18030's pending ASCII byte)
    for (enc, nmax, ranges, pres) in dec_shapes(tier, seed):
        cjk = enc in ("Big5", "EUC-KR", "Shift_JIS", "EUC-JP", "GBK", "gb18030")
        for pre in pres:
            rs = list(ranges)
            if q and enc in ("GBK", "gb18030"):
                sh = lead_shards(enc, 16)
                rs = [sh[1]] + [r for r in rs if r != sh[1]][:2]      # leads 0x81..: the four-byte forms
            for (lo, hi) in rs:
                n1 = 4 if enc in ("GBK", "gb18030", "UTF-16LE", "UTF-16BE") else 3
                jl.append(J("se_h_c19_mid", {0: E[enc], 1: 1 if lo else 0, 2: n1, 5: lo, 6: hi, 7: pre, 8: 0},
                            label="%s: query right after the first Malformed return, stream n<=%d first=%02X..%02X prefix=%d" % (enc, n1, lo, hi, pre), need=[9999], weight=30,
                            time_budget=900 if q else 3000, **({"mem_gb": 10} if enc in ("gb18030", "GBK") else {})))
    # the same query point behind the BOM front end (which withholds EF / EF BB / FE / FF at the end of a buffer and replays them),
    # and the other kind of mid-buffer return: OutputFull at a minimum-size destination.  The stream is cut at a symbolic point.
    for enc in ("windows-1252", "x-user-defined", "ISO-2022-JP", "UTF-8", "Shift_JIS", "EUC-KR", "Big5", "gb18030", "UTF-16LE", "UTF-16BE", "replacement"):
        cjk = enc in ("Shift_JIS", "EUC-KR", "Big5", "gb18030")
        if enc == "UTF-8":
            rs = [(0xE8, 0xEF)]
        elif enc.startswith("UTF-16"):
            rs = [(0xC0, 0xFF)]
        elif cjk:
            rs = [sh for sh in lead_shards(enc, 16) if sh[0] <= 0xEF <= sh[1]]
        else:
            rs = [(0xE0, 0xFF)]
        for bom in ((2,) if q and enc != "UTF-8" else (1, 2)):
            for cap in (2, 0):                # 2 UTF-16 units = the documented minimum (below it the BOM replay may panic, as documented)
                for (lo, hi) in rs:
                    jl.append(J("se_h_c19_mid", {0: E[enc], 1: 1, 2: 3, 5: lo, 6: hi, 7: 0, 8: bom, 9: cap, 10: 1},
                                label="%s behind BOM %s: query right after the first Malformed / OutputFull return, n<=3 first=%02X..%02X cut anywhere, %s destination" % (
                                    enc, ("", "removal", "sniffing")[bom], lo, hi, "minimum-size" if cap else "large"),
                                need=[9999], weight=30, time_budget=900 if q else 3000, **({"mem_gb": 10} if enc == "gb18030" else {})))
    # OutputFull returns without BOM handling (minimum-size destination): pending second halves (astral pair, Big5 two-code-point sequences)
    for (enc, lo, hi, n1) in (("UTF-8", 0xF0, 0xF4, 4), ("Big5", 0x87, 0x8E, 3), ("gb18030", 0x90, 0x97, 4), ("UTF-16LE", 0x00, 0xFF, 4), ("windows-1252", 0x80, 0xFF, 3)):
        jl.append(J("se_h_c19_mid", {0: E[enc], 1: 1, 2: n1, 5: lo, 6: hi, 7: 0, 8: 0, 9: 2, 10: 1},
                    label="%s: query right after the first OutputFull / Malformed return at a minimum-size (2-unit) destination, n<=%d first=%02X..%02X" % (enc, n1, lo, hi),
                    need=[9999], weight=30, time_budget=900 if q else 3000, **({"mem_gb": 10} if enc == "gb18030" else {})))
    return jl


PROPS["C19"] = dict(
    cfgs=["verif_c19"], level="model_checking", jobs=c19_jobs, need_global=[60, 61, 62, 63, 64, 65, 66, 67],
    explanation=("A real decoder and three twins are brought into the same reachable state by a symbolic prefix (pushed with last=false; BOM modes off and sniffing; ISO-2022-JP also after "
                 "concrete escape prefixes). latin1_byte_compatible_up_to is then called on a buffer of k ASCII bytes, a window of two symbolic bytes and up to two more ASCII bytes. "
                 "None is only accepted if a twin's end-of-stream flush shows something pending, the decoder is still waiting for a BOM, the encoding in use is never compatible, or it "
                 "is ISO-2022-JP; Some(n) requires the opposite and: decoding the first n bytes with a twin in the same state yields exactly n units equal to the byte values; if n is "
                 "short of the buffer, byte n decoded on its own does not simply yield its own value (so n never stops inside a pass-through ASCII run, and for single-byte encodings "
                 "byte n is the first that decodes to something else); the queried decoder's subsequent output equals an untouched twin's. A second harness asks the question right after the first call of the "
                 "caller loop that returns Malformed (when deferred output such as gb18030's pending ASCII byte may be waiting) and checks Some(n) against what a lock-step twin then "
                 "decodes. This check found the defect repaired in ebc9f92 (known_findings.json)."),
    bounds=lambda tier: ("prefixes of <=%s symbolic bytes, buffers of k ASCII bytes (%s) + 2 symbolic bytes + 0..2 ASCII bytes; all encoding families of C08's decoder shapes"
                         % (("1-2", "k in 0..3 and 14..18") if tier == "quick" else ("2", "k in 0..20 and 28..34"))),
    outside=["buffers longer than the bounds", "for ISO-2022-JP in a non-ASCII state None is accepted without deriving the state independently"],
    assumptions=ENGINE_ASSUMPTIONS + ["'mid-sequence' is observed from outside: a twin fed the same prefix produces output or an error when the stream is ended"],
)



# ----------------------------------------------------------------------------------------------- C11
def c11_jobs(tier, seed):
    jl = []
    q = tier == "quick"
    rnd = random.Random(seed)
    API = ("decode", "decode_with_bom_removal", "decode_without_bom_handling", "decode_without_bom_handling_and_without_replacement")
    if q:
        encs = ["UTF-8", "windows-1252", "ISO-2022-JP", "UTF-16LE", "UTF-16BE", "Big5", "gb18030", "Shift_JIS", "replacement", "x-user-defined", ENC_NAMES[rnd.choice(SINGLE)]]
        shapes = [(4, 0), (9, 3), (20, 16), (24, 21), (63, 60), (64, 61), (65, 63), (66, 62)]
    else:
        encs = list(ENC_NAMES)
        shapes = [(l, p) for l in list(range(3, 25)) + [31, 32, 33, 47, 48, 49, 63, 64, 65, 66, 127, 128, 129, 130] for p in sorted(set([0, max(0, l - 3), (l // 2) & ~1, max(0, min(l - 3, 16))]))]
    for enc in dict.fromkeys(encs):
        cjk = enc in ("Big5", "EUC-KR", "Shift_JIS", "EUC-JP", "GBK", "gb18030")
        for api in range(4):
            for k, (l, p) in enumerate(shapes):
                if q and (k + api) % 2 and l not in (64, 65) and not (p == 0 and api in (0, 1)):
                    continue          # (the window at the very start is where the BOM-handling entry points differ: never thinned out)
                w = 2 if (cjk or (enc == "UTF-8" and p < 3)) else 3
                jl.append(J("se_h_c11_decode", {0: E[enc], 1: api, 2: l, 3: min(p, l - w), 4: w},
                            label="%s.%s: %d bytes = ASCII with %d symbolic bytes at %d" % (enc, API[api], l, w, min(p, l - w)), need=[9999], weight=20 + l // 4,
                            time_budget=900 if q else 3000, **({"mem_gb": 10} if enc in ("gb18030", "GBK") else {})))
    # the one-shot decoders size their first allocation with next_power_of_two: lengths just below and at powers of two,
    # window at the start (errors replaced before the first allocation overflows) and at the end
    for enc in (("UTF-8", "EUC-KR", "windows-1252") if q else ("UTF-8", "EUC-KR", "EUC-JP", "Big5", "windows-1252", "Shift_JIS", "gb18030")):
        for kk in ((3, 4) if q else (3, 4, 5, 6)):
            for l in range((1 << kk) - 5, (1 << kk) + 2):
                for p0 in (0, l - 3):
                    w = 3 if enc != "UTF-8" else 2 + (p0 > 0)
                    for api in ((2,) if q else (0, 2, 3)):
                        jl.append(J("se_h_c11_decode", {0: E[enc], 1: api, 2: l, 3: max(0, min(p0, l - w)), 4: w},
                                    label="%s.%s: %d bytes (around 2^%d) with %d symbolic bytes at %d" % (enc, API[api], l, kk, w, max(0, min(p0, l - w))), need=[9999], weight=15,
                                    time_budget=900 if q else 3000))
    ewins = {"windows-1252": [(0, 0x80, 0x17F)], "UTF-8": [(0, 0x700, 0x8FF), (0x10000, 0, 0xFF)], "UTF-16LE": [(0, 0x400, 0x4FF)], "replacement": [(0, 0x80, 0xFF)],
             "ISO-2022-JP": [(0, 0, 0x7F), (0, 0x3040, 0x305F), (0, 0xA0, 0xBF)], "Big5": [(0, 0x4E00, 0x4E1F), (0, 0x80, 0x9F)], "gb18030": [(0, 0x4E00, 0x4E0F), (0x10000, 0, 0xF)],
             "Shift_JIS": [(0, 0x3040, 0x305F)], "EUC-KR": [(0, 0xAC00, 0xAC1F)], "x-user-defined": [(0, 0xF780, 0xF7FF)]}
    for enc, ws in ewins.items():
        for (base, lo, hi) in ws:
            for (k, s) in ([(0, 0), (3, 2), (17, 1), (62, 3), (64, 0)] if q else [(k, s) for k in (0, 1, 3, 15, 16, 17, 31, 62, 63, 64, 65, 127) for s in (0, 2)]):
                jl.append(J("se_h_c11_encode", {0: E[enc], 2: k, 3: base, 4: lo, 5: hi, 6: s},
                            label="%s.encode: %d ASCII + one symbolic character U+%04X..U+%04X + %d ASCII" % (enc, k, base + lo, base + hi, s), need=[9999], weight=10,
                            small_index_fork=64, time_budget=900 if q else 3000))
    return jl


PROPS["C11"] = dict(
    cfgs=["verif_c11"], level="model_checking", jobs=c11_jobs, need_global=[70, 71, 72, 73],
    explanation=("Encoding::decode, decode_with_bom_removal, decode_without_bom_handling, decode_without_bom_handling_and_without_replacement and encode are executed symbolically from "
                 "the whole-program IR (Vec / String growth from liballoc is executed, not modelled) on an ASCII filler of concrete length L with a window of symbolic bytes at position p "
                 "(encode: one symbolic character), L chosen below, at and above the 64-byte threshold of the validator-driven prefix handling. The result is asserted equal to the "
                 "streaming converter in the matching BOM mode fed the whole input: same bytes/text, same had_errors, same encoding used; the without-replacement form is None exactly "
                 "when the streaming decoder reports a malformed sequence; the result is Cow::Borrowed whenever the documentation promises it (after BOM removal: valid UTF-8 for UTF-8, "
                 "ASCII-only for ASCII-compatible encodings, ASCII-state-only for ISO-2022-JP; any input when encoding to UTF-8), and a borrowed result has the pointer and length of the "
                 "caller's own bytes (pointer identity is first-class in the executor). z3 decides every branch and assertion."),
    bounds=lambda tier: ("inputs of L bytes with a 2-3 byte symbolic window at position p: %s; encode: k ASCII + one symbolic character in a window + s ASCII, k in %s; %s"
                         % (("L in {4, 9, 20, 24, 63, 64, 65, 66}", "{0, 3, 17, 62, 64}", "10 encodings") if tier == "quick" else
                            ("L in 3..24, 31..33, 47..49, 63..66, 127..130 with up to four window positions each", "{0, 1, 3, 15..17, 31, 62..65, 127}", "all 40 encodings for decode"))),
    outside=["inputs longer than 130 bytes (the property names 0..4096)", "more than one symbolic window per input", "the simdutf8 path for inputs >= 64 bytes (the crate's scalar validator is forced, "
             "see the hook)"],
    assumptions=ENGINE_ASSUMPTIONS + ["the streaming converter fed the whole input in one call with a worst-case-sized sink is the yardstick (C01/C02/C03/C10)"],
)


# ----------------------------------------------------------------------------------------------- bounds added after the seeded-change rounds
EXTRA_BOUNDS = {
    "C01": "ISO-2022-JP also: escape prefix + one symbolic byte + a second concrete escape + symbolic tail, in every state.",
    "C02": "Also: the same chunking behind BOM removal / sniffing with the first byte in the shard of the BOM leads (11 decoder families); regime E = the first two calls at a "
           "symbolic destination of 0..minimum-1 units, then a large one (panics tolerated below the documented minimum, differing results not); lead bytes with their own "
           "state-machine arm always among the shards.",
    "C03": "Also: astral characters whose low 16 bits are a mappable BMP character, in every ISO-2022-JP state; single-byte encoders with the symbolic character after / between "
           "mapped non-ASCII neighbours.",
    "C04": "Also: the edges of the surrogate ranges read from UTF-16 at capacities min..min+2; U+0000..00FF after a mapped non-ASCII character; the Cyrillic window.",
    "C05": "Also the long-ASCII-run and BOM-front-end histories inherited from C08.",
    "C06": "Also: C08's histories with a symbolic destination of 0..minimum-1 units (a panic is tolerated there, an out-of-bounds access or written > dst.len() is not); "
           "streaming conversions of 16 / 33 ASCII units + symbolic units against every capacity, also on the debug-assertions build; histories behind the BOM front end.",
    "C07": "Also the Cyrillic window (two-byte UTF-8) for every CJK encoder and the lead bytes with their own state-machine arm.",
    "C08": "Also: complete four-byte UTF-8 sequences behind an ASCII byte; histories behind BOM removal / sniffing; streaming conversions of 16 / 33 ASCII units + n<=2 symbolic "
           "units (+ 0 / 2 ASCII) against every destination capacity from the minimum to the input length + 3, decoders and encoders, compared with the reference converters.",
    "C09": "Also: source form and capacity of the replacing run varied independently; histories behind the BOM front end.",
    "C10": "Also: the first two calls at a symbolic destination of 0..minimum-1 units (no progress possible, a panic tolerated), then a large one: whatever was withheld must still be delivered once.",
    "C11": "The window at the very start is never thinned out for the BOM-handling entry points; UTF-16BE included.",
    "C12": "Also: astral characters aliasing mappable BMP characters after ASCII / Roman / kana / kanji; window U+2100.. for the JIS encoders.",
    "C15": "Also: a concrete two-, three- or four-byte character (BMP unit / surrogate pair) between the filler and n<=4 symbolic units.",
    "C18": "Also: histories behind the BOM front end; streaming conversions of 16 / 33 ASCII units against every capacity with a symbolic pre-fill, compared with the reference.",
    "C19": "Also: the mid-loop query with the stream cut at a symbolic point, behind BOM sniffing / removal, after the first Malformed or OutputFull return at the documented minimum "
           "capacity; every ISO-2022-JP shift state settled by one more symbolic byte.",
}
