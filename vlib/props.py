"""Per-property job tables: which harness entry points are explored with which concrete parameters, what
each tier bounds, which witnesses must be reached, and the text that goes into the evidence."""
import random

ENGINE_ASSUMPTIONS = [
    "rustc/LLVM: the whole-program LLVM IR (release profile, opt-level 3, lto=fat, panic=abort, loop/SLP vectorisers off) is taken as the meaning of the source",
    "z3 4.x/5.1 answers are trusted (any 'unknown' makes the run inconclusive)",
    "llsym (the executor in /verif/llsym) is trusted; guarded by the concrete differential self-test (native vs. interpreted transcripts) and by native replay of every counterexample",
    "allocation never fails (malloc model returns a fresh object); x86_64 little-endian only",
    "core_detect::detect_and_initialize is stubbed to 'no AVX2, no SSE4.2' so the crate's scalar UTF-8 validator also runs for inputs >= 64 bytes; the simdutf8 kernels are outside the claim",
    "default feature set (the 'std' feature only removes #![no_std]); simd-accel build is outside the claim",
]

PROPS = {}

ENC_NAMES = ["Big5", "EUC-JP", "EUC-KR", "GBK", "IBM866", "ISO-2022-JP", "ISO-8859-10", "ISO-8859-13", "ISO-8859-14",
             "ISO-8859-15", "ISO-8859-16", "ISO-8859-2", "ISO-8859-3", "ISO-8859-4", "ISO-8859-5", "ISO-8859-6",
             "ISO-8859-7", "ISO-8859-8", "ISO-8859-8-I", "KOI8-R", "KOI8-U", "Shift_JIS", "UTF-16BE", "UTF-16LE", "UTF-8",
             "gb18030", "macintosh", "replacement", "windows-1250", "windows-1251", "windows-1252", "windows-1253",
             "windows-1254", "windows-1255", "windows-1256", "windows-1257", "windows-1258", "windows-874",
             "x-mac-cyrillic", "x-user-defined"]
E = {n: i for i, n in enumerate(ENC_NAMES)}
MULTI = [E[n] for n in ("Big5", "EUC-JP", "EUC-KR", "GBK", "ISO-2022-JP", "Shift_JIS", "UTF-16BE", "UTF-16LE", "UTF-8", "gb18030",
                        "replacement", "x-user-defined")]
SINGLE = [i for i in range(40) if i not in MULTI]


def J(harness, params=None, **kw):
    d = dict(harness=harness, params=params or {})
    d.update(kw)
    return d


# ----------------------------------------------------------------------------------------------- SELFTEST
def selftest_jobs(tier, seed):
    return []


PROPS["SELFTEST"] = dict(cfgs=["verif_selftest"], level="other", jobs=selftest_jobs, evidence=False, explanation="",
                         bounds="", assumptions=[])


# ----------------------------------------------------------------------------------------------- C14
def c14_jobs(tier, seed):
    jl = []
    fnames = ["utf8_valid_up_to", "ascii_valid_up_to", "iso_2022_jp_ascii_valid_up_to", "utf16_valid_up_to",
              "utf8_latin1_up_to", "str_latin1_up_to"]
    nmax = 5 if tier == "quick" else 6
    for f in range(6):
        n = nmax if f in (0, 4, 5) else min(nmax, 4) + (1 if tier == "thorough" else 0)
        for off in ((0, 3) if tier == "quick" else (0, 1, 3, 7)):
            jl.append(J("se_h_c14_small", {0: f, 1: n, 2: off}, label="%s fully symbolic len<=%d off=%d" % (fnames[f], n, off),
                        need=[9999, 10, 11], weight=5))
    # window in filler: number of prefix characters k, suffix units s
    rnd = random.Random(seed)
    if tier == "quick":
        kranges = [(0, 6), (14, 18)]
        sranges = [(0, 5)]
        extra_k = rnd.randrange(20, 40)
        kranges.append((extra_k, extra_k))
    else:
        kranges = [(0, 8), (9, 17), (18, 26), (27, 35), (36, 44)]
        sranges = [(0, 5), (12, 20), (60, 66)]
    for f in range(6):
        classes = (0, 1, 2, 3)
        if f in (1, 2):
            classes = (0,)
        if f in (4, 5):
            classes = (0, 1)
        for cl in classes:
            w = 4 if f in (0,) else 3
            if f == 3:
                w = 3
            for (k0, k1) in kranges:
                for (s0, s1) in sranges:
                    for off in ((1,) if tier == "quick" else (0, 5)):
                        jl.append(J("se_h_c14_window", {0: f, 1: cl, 2: w, 3: k0, 4: k1, 5: s0, 6: s1, 7: off},
                                    label="%s window=%d filler=%d k=%d..%d s=%d..%d" % (fnames[f], w, cl, k0, k1, s0, s1),
                                    need=[9999], weight=(k1 - k0 + 1) * (s1 - s0 + 1) * (8 if f == 0 else 2)))
    # scalar validator beyond the 64-byte SIMD threshold (cpuid stub): long ASCII / multi-byte prefix
    for cl in (0, 2):
        ks = [(64, 66)] if tier == "quick" else [(60, 70), (120, 124)]
        for (k0, k1) in ks:
            if cl == 2:
                k0, k1 = k0 // 3, k1 // 3 + 1
            jl.append(J("se_h_c14_window", {0: 0, 1: cl, 2: 4, 3: k0, 4: k1, 5: 0, 6: 3, 7: 0},
                        label="utf8_valid_up_to >=64 bytes (scalar path via cpuid stub) filler=%d" % cl, need=[9999], weight=60))
    return jl


PROPS["C14"] = dict(
    cfgs=["verif_c14"], level="model_checking", jobs=c14_jobs,
    explanation=("Each validator (Encoding::utf8_valid_up_to, ascii_valid_up_to, iso_2022_jp_ascii_valid_up_to, mem::utf16_valid_up_to, "
                 "mem::utf8_latin1_up_to, mem::str_latin1_up_to) is executed symbolically from the compiled IR of the real crate and its result is "
                 "asserted equal to a naive one-unit-at-a-time reference predicate (and, for UTF-8, to core::str::from_utf8) for every value of the "
                 "symbolic units; z3 decides every assertion over the whole input space of the path."),
    bounds=lambda tier: ("(a) every buffer of length 0..=%d (0..=%d for the ASCII/UTF-16 functions) with all units symbolic, at %d start offsets; "
                         "(b) a window of 3-4 fully symbolic units after k whole filler characters (ASCII, 2-, 3-, 4-byte / BMP, surrogate pair, "
                         "space) and before s filler units (possibly a truncated character), k and s over the ranges listed per job "
                         "(quick: k in 0..6, 14..18 and one seed-chosen value, s in 0..5; thorough: k in 0..44, s in 0..5, 12..20, 60..66); "
                         "(c) utf8_valid_up_to with 64..%d bytes before the window so that the built-in scalar validator runs past the SIMD threshold."
                         % ((5, 4, 2, 66) if tier == "quick" else (6, 5, 4, 124))),
    outside=["simdutf8 SIMD kernels (x86 intrinsics)", "simd-accel build", "buffers longer than the stated bounds",
             "more than one symbolic window per buffer"],
    assumptions=ENGINE_ASSUMPTIONS + ["str_latin1_up_to: input assumed valid UTF-8 (its &str precondition), expressed with the reference validator"],
)
