"""Per-property job tables: which harness entry points are explored with which concrete parameters, what
each tier bounds, which witnesses must be reached, and the text that goes into the evidence."""
import random

ENGINE_ASSUMPTIONS = [
    "rustc/LLVM: the whole-program LLVM IR (release profile, opt-level 3, lto=fat, panic=abort, loop/SLP vectorisers off) is taken as the meaning of the source",
    "z3 4.x/5.1 answers are trusted (any 'unknown' makes the run inconclusive)",
    "llsym (the executor in /verif/llsym) is trusted; guarded by the concrete differential self-test (native vs. interpreted transcripts) and by native replay of every counterexample",
    "allocation never fails (malloc model returns a fresh object); x86_64 little-endian only",
    "core_detect::detect_and_initialize is stubbed to 'no AVX2, no SSE4.2' so the crate's scalar UTF-8 validator also runs for inputs >= 64 bytes; the simdutf8 kernels are outside the claim",
    "default feature set (the 'std' feature only removes #![no_std]); simd-accel build is outside the claim",
]

PROPS = {}

ENC_NAMES = ["Big5", "EUC-JP", "EUC-KR", "GBK", "IBM866", "ISO-2022-JP", "ISO-8859-10", "ISO-8859-13", "ISO-8859-14",
             "ISO-8859-15", "ISO-8859-16", "ISO-8859-2", "ISO-8859-3", "ISO-8859-4", "ISO-8859-5", "ISO-8859-6",
             "ISO-8859-7", "ISO-8859-8", "ISO-8859-8-I", "KOI8-R", "KOI8-U", "Shift_JIS", "UTF-16BE", "UTF-16LE", "UTF-8",
             "gb18030", "macintosh", "replacement", "windows-1250", "windows-1251", "windows-1252", "windows-1253",
             "windows-1254", "windows-1255", "windows-1256", "windows-1257", "windows-1258", "windows-874",
             "x-mac-cyrillic", "x-user-defined"]
E = {n: i for i, n in enumerate(ENC_NAMES)}
MULTI = [E[n] for n in ("Big5", "EUC-JP", "EUC-KR", "GBK", "ISO-2022-JP", "Shift_JIS", "UTF-16BE", "UTF-16LE", "UTF-8", "gb18030",
                        "replacement", "x-user-defined")]
SINGLE = [i for i in range(40) if i not in MULTI]


def J(harness, params=None, **kw):
    d = dict(harness=harness, params=params or {})
    d.update(kw)
    return d


# ----------------------------------------------------------------------------------------------- SELFTEST
def selftest_jobs(tier, seed):
    return []


PROPS["SELFTEST"] = dict(cfgs=["verif_selftest"], level="other", jobs=selftest_jobs, evidence=False, explanation="",
                         bounds="", assumptions=[])


# ----------------------------------------------------------------------------------------------- C14
def c14_jobs(tier, seed):
    jl = []
    fnames = ["utf8_valid_up_to", "ascii_valid_up_to", "iso_2022_jp_ascii_valid_up_to", "utf16_valid_up_to",
              "utf8_latin1_up_to", "str_latin1_up_to"]
    nmax = 5 if tier == "quick" else 6
    for f in range(6):
        n = nmax if f in (0, 4, 5) else min(nmax, 4) + (1 if tier == "thorough" else 0)
        for off in ((0, 3) if tier == "quick" else (0, 1, 3, 7)):
            jl.append(J("se_h_c14_small", {0: f, 1: n, 2: off}, label="%s fully symbolic len<=%d off=%d" % (fnames[f], n, off),
                        need=[9999, 10, 11], weight=5))
    # window in filler: number of prefix characters k, suffix units s
    rnd = random.Random(seed)
    if tier == "quick":
        kranges = [(0, 6), (14, 18)]
        sranges = [(0, 5)]
        extra_k = rnd.randrange(20, 40)
        kranges.append((extra_k, extra_k))
    else:
        kranges = [(0, 8), (9, 17), (18, 26), (27, 35), (36, 44)]
        sranges = [(0, 5), (12, 20), (60, 66)]
    for f in range(6):
        classes = (0, 1, 2, 3)
        if f in (1, 2):
            classes = (0,)
        if f in (4, 5):
            classes = (0, 1)
        for cl in classes:
            w = 4 if f in (0,) else 3
            if f == 3:
                w = 3
            for (k0, k1) in kranges:
                for (s0, s1) in sranges:
                    for off in ((1,) if tier == "quick" else (0, 5)):
                        jl.append(J("se_h_c14_window", {0: f, 1: cl, 2: w, 3: k0, 4: k1, 5: s0, 6: s1, 7: off},
                                    label="%s window=%d filler=%d k=%d..%d s=%d..%d" % (fnames[f], w, cl, k0, k1, s0, s1),
                                    need=[9999], weight=(k1 - k0 + 1) * (s1 - s0 + 1) * (8 if f == 0 else 2)))
    # scalar validator beyond the 64-byte SIMD threshold (cpuid stub): long ASCII / multi-byte prefix
    for cl in (0, 2):
        ks = [(64, 66)] if tier == "quick" else [(60, 70), (120, 124)]
        for (k0, k1) in ks:
            if cl == 2:
                k0, k1 = k0 // 3, k1 // 3 + 1
            jl.append(J("se_h_c14_window", {0: 0, 1: cl, 2: 4, 3: k0, 4: k1, 5: 0, 6: 3, 7: 0},
                        label="utf8_valid_up_to >=64 bytes (scalar path via cpuid stub) filler=%d" % cl, need=[9999], weight=60))
    return jl


PROPS["C14"] = dict(
    cfgs=["verif_c14"], level="model_checking", jobs=c14_jobs,
    explanation=("Each validator (Encoding::utf8_valid_up_to, ascii_valid_up_to, iso_2022_jp_ascii_valid_up_to, mem::utf16_valid_up_to, "
                 "mem::utf8_latin1_up_to, mem::str_latin1_up_to) is executed symbolically from the compiled IR of the real crate and its result is "
                 "asserted equal to a naive one-unit-at-a-time reference predicate (and, for UTF-8, to core::str::from_utf8) for every value of the "
                 "symbolic units; z3 decides every assertion over the whole input space of the path."),
    bounds=lambda tier: ("(a) every buffer of length 0..=%d (0..=%d for the ASCII/UTF-16 functions) with all units symbolic, at %d start offsets; "
                         "(b) a window of 3-4 fully symbolic units after k whole filler characters (ASCII, 2-, 3-, 4-byte / BMP, surrogate pair, "
                         "space) and before s filler units (possibly a truncated character), k and s over the ranges listed per job "
                         "(quick: k in 0..6, 14..18 and one seed-chosen value, s in 0..5; thorough: k in 0..44, s in 0..5, 12..20, 60..66); "
                         "(c) utf8_valid_up_to with 64..%d bytes before the window so that the built-in scalar validator runs past the SIMD threshold."
                         % ((5, 4, 2, 66) if tier == "quick" else (6, 5, 4, 124))),
    outside=["simdutf8 SIMD kernels (x86 intrinsics)", "simd-accel build", "buffers longer than the stated bounds",
             "more than one symbolic window per buffer"],
    assumptions=ENGINE_ASSUMPTIONS + ["str_latin1_up_to: input assumed valid UTF-8 (its &str precondition), expressed with the reference validator"],
)


# ----------------------------------------------------------------------------------------------- C01
def lead_shards(enc, n):
    """first-byte ranges: one shard for the non-lead bytes, then the lead range split n ways"""
    lo, hi = {"Big5": (0x81, 0xFE), "EUC-KR": (0x81, 0xFE), "GBK": (0x81, 0xFE), "gb18030": (0x81, 0xFE),
              "Shift_JIS": (0x81, 0xFC), "EUC-JP": (0x8E, 0xFE)}[enc]
    out = [(0, lo - 1)]
    step = (hi - lo + 1 + n - 1) // n
    a = lo
    while a <= hi:
        out.append((a, min(a + step - 1, hi)))
        a += step
    if hi < 0xFF:
        out.append((hi + 1, 0xFF))
    return out


def c01_jobs(tier, seed):
    jl = []
    q = tier == "quick"

    def add(enc, nmin, nmax, sink, repl, lo=0, hi=255, pre=0, need=(9999,), weight=1, **kw):
        jl.append(J("se_h_c01_decode", {0: E[enc], 1: nmin, 2: nmax, 3: sink, 4: repl, 5: lo, 6: hi, 7: pre},
                    label="%s n=%d..%d sink=%s repl=%d first=%02X..%02X prefix=%d" % (enc, nmin, nmax, ("utf16", "utf8")[sink], repl, lo, hi, pre),
                    need=list(need), weight=weight, **kw))
    has_err = {n: True for n in ENC_NAMES}
    for n in ("IBM866", "ISO-8859-2", "ISO-8859-4", "ISO-8859-5", "ISO-8859-10", "ISO-8859-13", "ISO-8859-14", "ISO-8859-15",
              "ISO-8859-16", "KOI8-R", "KOI8-U", "macintosh", "windows-1250", "windows-1251", "windows-1252", "windows-1254",
              "windows-1256", "windows-1258", "x-mac-cyrillic", "x-user-defined"):
        has_err[n] = False
    for i in SINGLE + [E["x-user-defined"], E["replacement"]]:
        enc = ENC_NAMES[i]
        need = [9999, 20, 21] if has_err[enc] else [9999, 21]
        for sink in (0, 1):
            for repl in (0, 1):
                add(enc, 0, 2 if q else 3, sink, repl, need=need, weight=1)
    for enc in ("UTF-8", "UTF-16BE", "UTF-16LE"):
        for sink in (0, 1):
            for repl in (0, 1):
                # sharded by first byte (UTF-8: ASCII / continuation+C0.. / 2-byte leads / 3-byte leads / 4-byte leads and above)
                ranges = [(0, 0x7F), (0x80, 0xC1), (0xC2, 0xDF), (0xE0, 0xE7), (0xE8, 0xEF), (0xF0, 0xFF)] if enc == "UTF-8" else \
                         [(0, 0x3F), (0x40, 0x7F), (0x80, 0xBF), (0xC0, 0xFF)]
                for k, (lo, hi) in enumerate(ranges):
                    add(enc, 0 if k == 0 else 1, 4 if q else 5, sink, repl, lo, hi, need=[9999], weight=40)
    for enc in ("Big5", "EUC-KR", "Shift_JIS", "EUC-JP", "GBK", "gb18030"):
        shards = lead_shards(enc, 16)        # ~8 lead values per job: table facts stay local to the shard
        for sink in (0, 1):
            for repl in (0, 1):
                full = sink == 0 and repl == 0
                nmax = 3 if (full or not q) else 2
                if enc in ("GBK", "gb18030") and not q and full:
                    nmax = 4                 # four-byte forms: ~3 min per shard, thorough tier only
                if enc == "EUC-JP" and not q:
                    nmax = 4
                for (lo, hi) in shards:
                    add(enc, 0 if lo == 0 else 1, nmax, sink, repl, lo, hi, need=[9999], weight=40 * nmax)
    # ISO-2022-JP: fully symbolic short streams + every valid / damaged escape as concrete prefix
    for sink in (0, 1):
        for repl in (0, 1):
            full = sink == 0 and repl == 0
            add("ISO-2022-JP", 0, 3 if (q and not full) else 4, sink, repl, need=[9999, 20, 21], weight=60)
            for pre in range(1, 15):
                if q and not full and pre > 5:
                    continue
                add("ISO-2022-JP", 0, 3 if (full or not q) else 2, sink, repl, pre=pre, need=[9999], weight=60)
    for j in jl:
        j["time_budget"] = 900 if q else 3000
    return jl


PROPS["C01"] = dict(
    cfgs=["verif_c01"], level="model_checking", jobs=c01_jobs,
    explanation=("For every encoding the real Decoder (built from /repo, executed symbolically from its LLVM IR through the public API with a "
                 "worst-case-sized sink and last=true) is run on a stream of N fully symbolic bytes, and its complete output - code units and "
                 "Malformed(len, after) reports converted to absolute spans - is asserted equal to a line-by-line transcription of the WHATWG "
                 "decoder algorithm of that encoding run on the same symbolic bytes (index data regenerated from tests/test_data). With "
                 "replacement: one U+FFFD per error and had_errors <=> some error. z3 decides every branch and every assertion per path."),
    bounds=lambda tier: ("complete streams (one call sequence, last=true) of N symbolic bytes: single-byte/x-user-defined/replacement N<=%d; UTF-8, UTF-16LE/BE N<=%d; "
                         "Big5, EUC-KR, Shift_JIS N<=3 (quick: N<=2 for the UTF-8 sink and the replacing methods); EUC-JP N<=%d; GBK/gb18030 N<=3 "
                         "(quick: 2 for UTF-8 sink/replacing; thorough: N<=4 for the UTF-16 sink without replacement, i.e. all four-byte forms); ISO-2022-JP N<=4 fully symbolic plus 14 concrete escape prefixes (valid, truncated, "
                         "doubled, with pending lead) followed by <=3 symbolic bytes; both sinks (UTF-16, UTF-8), with and without replacement; "
                         "sharded by first-byte range" % ((2, 4, 3) if tier == "quick" else (3, 5, 4))),
    outside=["streams longer than N bytes", "content of the 28 single-byte index tables and of the gb18030 ranges table (trusted data: no second copy offline)",
             "BOM handling (C10)", "chunked input (C02)"],
    assumptions=ENGINE_ASSUMPTIONS + [
        "reference decoders in /verif/harness/refdec.rs are faithful transcriptions of the Encoding Standard",
        "reference index tables are regenerated from /repo/tests/test_data/*_in_ref.txt (upstream-generated from indexes.json)",
        "an error's span is defined as the bytes the erroring step consumed, did not restore and did not use (e.g. an ESC that starts an escape is used)"],
)


# ----------------------------------------------------------------------------------------------- C02
UTF8_RANGES = [(0, 0x7F), (0x80, 0xC1), (0xC2, 0xDF), (0xE0, 0xE7), (0xE8, 0xEF), (0xF0, 0xFF)]
Q_RANGES = [(0, 0x3F), (0x40, 0x7F), (0x80, 0xBF), (0xC0, 0xFF)]


def c02_jobs(tier, seed):
    jl = []
    q = tier == "quick"
    rnd = random.Random(seed)
    SINKS = ("utf16", "utf8", "str", "String")

    def add(enc, n0, n1, sink, repl, lo, hi, pre, regime, bom=0, weight=10, need=()):
        mn = 2 if sink == 0 else 4
        # regimes: A = 2 cuts + optional empty final call, large sink; B = 1 cut, 3 symbolic per-call capacities
        # min..min+2; C = 2 cuts + empty final call at the fixed documented minimum; D = 2 cuts, capacities min..min+1
        cmin, cmax, ncuts, el = {"A": (24, 24, 2, 1), "B": (mn, mn + (1 if q else 2), 1, 0), "C": (mn, mn, 2, 1), "D": (mn, mn + 1, 2, 0)}[regime]
        nd = [9999] + list(need)
        jl.append(J("se_h_c02_chunk", {0: E[enc], 1: n0, 2: n1, 3: sink, 4: repl, 5: lo, 6: hi, 7: pre, 8: bom, 9: cmin, 10: cmax, 11: ncuts, 12: el,
                                       13: 2 if q else 3},
                    label="%s n=%d..%d sink=%s repl=%d first=%02X..%02X prefix=%d regime=%s" % (enc, n0, n1, SINKS[sink], repl, lo, hi, pre, regime),
                    need=nd, weight=weight, time_budget=900 if q else 3000))

    third = rnd.choice([(2, 0), (3, 1)])

    def configs(cheap=False):
        """(sink, repl) pairs: every sink kind and both replacement modes appear; quick trims the product for the
        expensive encodings to UTF-16/no replacement, UTF-8/replacement and a seed-chosen one of &mut str / String"""
        if q:
            return [(0, 0), (1, 1), (2, 0), (3, 1)] if cheap else [(0, 0), (1, 1), third]
        return [(s, r) for s in range(4) for r in (0, 1)]
    regimes = ("A", "B", "C") if q else ("A", "B", "C", "D")
    # single-byte family shares one code path: all 28 in regime C/UTF-16, three representatives in everything
    reps = ["windows-1252", "windows-874", "ISO-8859-8"] + ([ENC_NAMES[rnd.choice(SINGLE)]] if q else [])
    for i in SINGLE:
        enc = ENC_NAMES[i]
        if enc in reps or not q:
            for (s, r) in configs(True):
                for g in regimes:
                    add(enc, 0, 3, s, r, 0, 255, 0, g, weight=8)
        else:
            add(enc, 0, 3, 0, 0, 0, 255, 0, "C", weight=4)
    for enc in ("x-user-defined", "replacement"):
        for (s, r) in configs(True):
            for g in regimes:
                add(enc, 0, 3, s, r, 0, 255, 0, g, weight=4)
    for enc in ("UTF-8", "UTF-16BE", "UTF-16LE"):
        n1 = 3 if enc == "UTF-8" else 4
        if not q:
            n1 += 1
        for (s, r) in configs():
            for g in regimes:
                for k, (lo, hi) in enumerate(UTF8_RANGES if enc == "UTF-8" else Q_RANGES):
                    add(enc, 0 if k == 0 else 1, n1, s, r, lo, hi, 0, g, weight=30)
    for enc in ("Big5", "EUC-KR", "Shift_JIS", "EUC-JP", "GBK", "gb18030"):
        shards = lead_shards(enc, 16)
        if q:
            # quick: the non-lead shard, the last (past-the-leads) shard and two seed-chosen lead shards
            mid = shards[1:-1] if shards[-1][1] == 0xFF and shards[-1][0] > shards[1][0] else shards[1:]
            pick = [shards[0], shards[-1]] + rnd.sample(mid, 2)
        else:
            pick = shards
        n1 = 3
        for (s, r) in configs():
            for g in regimes:
                for (lo, hi) in pick:
                    add(enc, 0 if lo == 0 else 1, n1 if not (enc in ("GBK", "gb18030") and not q and s == 0 and r == 0) else 4,
                        s, r, lo, hi, 0, g, weight=40)
    # ISO-2022-JP: fully symbolic + escape prefixes
    for (s, r) in configs():
        for g in regimes:
            for (lo, hi) in [(0, 0x1A), (0x1B, 0x1B), (0x1C, 0x7F), (0x80, 0xFF)]:
                add("ISO-2022-JP", 0 if lo == 0 else 1, 3, s, r, lo, hi, 0, g, weight=40)
            for pre in ((4, 5, 8, 13) if q else range(1, 15)):
                add("ISO-2022-JP", 0, 2 if q else 3, s, r, 0, 255, pre, g, weight=40)
    # UTF-8 vs UTF-16 output forms denote the same scalars
    for i in range(40):
        enc = ENC_NAMES[i]
        if i in SINGLE and q and enc not in reps:
            continue
        if enc in ("Big5", "EUC-KR", "Shift_JIS", "EUC-JP", "GBK", "gb18030"):
            shards = lead_shards(enc, 16)
            pick = ([shards[0]] + rnd.sample(shards[1:-1], 3)) if q else shards
        elif enc == "UTF-8":
            pick = UTF8_RANGES
        else:
            pick = [(0, 255)]
        for repl in (0, 1):
            for (lo, hi) in pick:
                jl.append(J("se_h_c02_forms", {0: i, 1: 0 if lo == 0 else 1, 2: 3, 4: repl, 5: lo, 6: hi, 7: 0},
                            label="%s forms repl=%d first=%02X..%02X" % (enc, repl, lo, hi), need=[9999], weight=15,
                            time_budget=900 if q else 3000))
    return jl


PROPS["C02"] = dict(
    cfgs=["verif_c02"], level="model_checking", jobs=c02_jobs,
    # vacuity guard over the whole run: OutputFull while chunked, stream cut twice, empty middle buffer, empty final
    # call carrying `last`, streams with and without errors
    need_global=[30, 31, 32, 33, 20, 21],
    explanation=("The real Decoder is run twice on the same stream of N fully symbolic bytes: once in a single call sequence with a worst-case-sized "
                 "sink, once cut into up to three input buffers (symbolic cut points, empty buffers allowed, optionally an empty final call carrying "
                 "`last`) with symbolic per-call output capacities at and just above the documented minimum, re-pushing unconsumed input as documented. "
                 "Concatenated text, had_errors, the decoder's encoding() and absolute malformed-sequence spans are asserted equal; a second harness "
                 "asserts that the UTF-8 and UTF-16 forms denote the same scalars. Only real code on both sides (no reference model), so the claim does "
                 "not depend on any trusted index data. z3 decides every branch and assertion per path."),
    bounds=lambda tier: ("streams of N symbolic bytes (single-byte, x-user-defined, replacement N<=3; UTF-8 N<=%d; UTF-16LE/BE N<=%d; CJK two-byte N<=3%s; ISO-2022-JP N<=3 "
                         "plus %s concrete escape prefixes); sinks UTF-16 slice, UTF-8 slice, &mut str, String; with/without replacement (%s); three call-history "
                         "regimes whose costs add: A = two symbolic cuts + optional empty final call, large sink; B = one symbolic cut, symbolic per-call "
                         "capacities (quick: two calls, min..min+1; thorough: three calls, min..min+2); C = two symbolic cuts + empty final call at the fixed documented minimum (4 bytes / 2 units)%s. "
                         "%s" % ((3, 4, "", "4", "quick: sink/mode pairs (utf16,no), (utf8,yes) and a seed-chosen one of (str,no)/(String,yes); all four for the cheap encodings", "",
                                  "Quick: CJK encodings on the non-lead shard, the past-the-leads shard and two seed-chosen 8-lead shards; 24 of the 28 single-byte encodings only in regime C/UTF-16 (shared code path).")
                                 if tier == "quick" else
                                 (4, 5, ", gb18030/GBK N<=4 for the UTF-16 sink without replacement", "14", "all 8 sink/mode pairs",
                                  "; D = two cuts with capacities min..min+1", "All lead shards, all encodings in every regime."))),
    outside=["streams longer than N bytes", "more than two cuts", "BOM modes other than 'without BOM handling' (C10)",
             "capacities more than 2 above the minimum combined with two cuts"],
    assumptions=ENGINE_ASSUMPTIONS + ["the single-call run of the same real decoder is the yardstick (its conformance is C01)"],
)


# ----------------------------------------------------------------------------------------------- C10
def c10_jobs(tier, seed):
    jl = []
    q = tier == "quick"
    rnd = random.Random(seed)
    SINKS = ("utf16", "utf8", "str", "String")
    MODES = {0: "off", 1: "remove", 2: "sniff"}
    CLS = ("EF..", "FE/FF..", "other")

    def add(enc, n1, sink, repl, cls, bom, cmin, cmax, ncuts, el=1, weight=30, **kw):
        jl.append(J("se_h_c10_bom", {0: E[enc], 1: 0, 2: n1, 3: sink, 4: repl, 5: cls, 8: bom, 9: cmin, 10: cmax, 11: ncuts, 12: el},
                    label="%s mode=%s n<=%d first=%s sink=%s repl=%d cap=%d..%d cuts=%d" % (enc, MODES[bom], n1, CLS[cls], SINKS[sink], repl, cmin, cmax, ncuts),
                    need=[9999], weight=weight + (1000 if kw.get("mem_gb") else 0), time_budget=900 if q else 3000, **kw))
    cjk = ("Big5", "EUC-JP", "EUC-KR", "GBK", "Shift_JIS", "gb18030")
    if q:
        sniff = ["windows-874", "ISO-2022-JP", "windows-1252", "UTF-8", "UTF-16LE", "UTF-16BE", "replacement", "x-user-defined",
                 "Big5", "Shift_JIS", "gb18030", ENC_NAMES[rnd.choice(SINGLE)], rnd.choice(["EUC-JP", "EUC-KR", "GBK"])]
    else:
        sniff = list(ENC_NAMES)
    for enc in dict.fromkeys(sniff):
        n1 = 3 if enc in cjk else 4
        if not q and enc not in cjk:
            n1 = 5
        if enc == "UTF-8":
            n1 = 3 if q else 4          # the UTF-8 decoder alone has ~1100 data paths per 3 bytes
        n1b = 2 if (q and enc in ("gb18030", "GBK")) else n1     # FE/FF are gb18030 leads: whole-table facts
        big = dict(mem_gb=10) if enc in ("gb18030", "GBK") else {}
        # first byte EF: the withheld EF BB x family
        add(enc, n1, 0, 0, 0, 2, 24, 24, 3)                 # UTF-16, spans, large sink, three cuts
        add(enc, n1, 1, 1, 0, 2, 4, 4, 2)                   # UTF-8 replacing, documented minimum sink
        add(enc, n1, 1, 0, 0, 2, 4, 5, 2, el=0)             # UTF-8 without replacement, capacities 4..5
        # first byte FE / FF
        add(enc, n1b, 0, 1, 1, 2, 2, 2, 3, **big)           # UTF-16 replacing, minimum sink, three cuts
        add(enc, n1b, 1, 0, 1, 2, 24, 24, 2, **big)
        # anything else: nothing may be withheld or stripped
        add(enc, 2, 0, 0, 2, 2, 2, 3, 2, weight=10, **big)
        if not q:
            for sink in (2, 3):
                for cls in (0, 1):
                    add(enc, n1, sink, 1, cls, 2, 4, 4, 2)
                    add(enc, n1, sink, 0, cls, 2, 4, 5, 2, el=0)
    # BOM removal strips only its own BOM; no-BOM mode strips nothing
    for enc in (["UTF-8", "UTF-16LE", "UTF-16BE", "windows-1252", "ISO-2022-JP"] if q else ENC_NAMES):
        n1 = 3 if (enc in cjk or (q and enc == "UTF-8")) else 4
        for bom in (1, 0):
            for cls in (0, 1):
                add(enc, n1, 0, 0, cls, bom, 24, 24, 2, weight=20)
                add(enc, n1, 1, 1, cls, bom, 4, 4, 2, weight=20)
    jl.append(J("se_h_c10_for_bom", {1: 5}, label="Encoding::for_bom on every buffer of length 0..5", need=[9999, 50, 51], weight=1))
    return jl


PROPS["C10"] = dict(
    cfgs=["verif_c10"], level="model_checking", jobs=c10_jobs,
    need_global=[40, 41, 42, 43, 44, 30, 20, 21],
    explanation=("A decoder in each BOM mode (sniffing, BOM removal, no BOM handling) is run through the public API on a stream of N fully symbolic "
                 "bytes that is cut at up to three symbolic points among its first four bytes (empty buffers and an empty final call included), with "
                 "output capacities at the documented minimum and large. Its output, its Malformed reports as absolute spans, had_errors and "
                 "encoding() are asserted equal to the Standard's decode algorithm: BOM sniff over the first 2-3 bytes, then the transcribed "
                 "reference decoder of the selected encoding over the rest. Encoding::for_bom is checked on every buffer of length 0..5. "
                 "z3 decides every branch and assertion per path."),
    bounds=lambda tier: ("streams of N<=%s symbolic bytes (N<=3 for the CJK nominal encodings; quick: N<=3 for nominal UTF-8 and N<=2 for gb18030 outside the EF class), sharded by the class of the first byte (EF / FE,FF / other); up to three "
                         "symbolic cuts within the first four bytes, optional empty final call; sinks %s; capacities: documented minimum (4 bytes / 2 units), 4..5, and large (24); "
                         "nominal encodings: %s" % (("4", "UTF-16 and UTF-8 slices", "13 for sniffing (windows-874, ISO-2022-JP, windows-1252, UTF-8, UTF-16LE/BE, replacement, x-user-defined, Big5, Shift_JIS, "
                                                     "gb18030 and two seed-chosen ones), 5 for the removal and no-BOM modes")
                                                    if tier == "quick" else ("5", "UTF-16 slice, UTF-8 slice, &mut str, String", "all 40 in all three modes"))),
    outside=["streams longer than N bytes", "cuts after the fourth byte (covered by C02 for the no-BOM mode)",
             "content of trusted index data (see C01)"],
    assumptions=ENGINE_ASSUMPTIONS + ["reference decoders and reference indexes as in C01",
                                      "the Standard's BOM sniff is the three-prefix test EF BB BF / FE FF / FF FE on the start of the stream"],
)
