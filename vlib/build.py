"""Scratch copy of /repo + harness injection + IR / replay builds.  Everything is regenerated from
/repo's current working tree on every run; the scratch directory is removed at exit."""
import os, sys, subprocess, shutil, tempfile, atexit, re, signal, glob, time

VERIF = os.path.dirname(os.path.dirname(os.path.abspath(__file__)))
REPO = os.environ.get("VERIF_REPO", "/repo")

_scratch = None
_owner = None


def scratch():
    global _scratch, _owner
    if _scratch is None:
        base = os.environ.get("VERIF_SCRATCH_BASE") or tempfile.gettempdir()
        _scratch = tempfile.mkdtemp(prefix="verif-se-", dir=base)
        _owner = os.getpid()
        atexit.register(cleanup)
        for sig in (signal.SIGTERM, signal.SIGINT, signal.SIGHUP):
            try:
                signal.signal(sig, _on_signal)
            except Exception:
                pass
    return _scratch


def _on_signal(signum, frame):
    if os.getpid() == _owner:
        cleanup()
    os._exit(130)


def cleanup():
    global _scratch
    if _owner is not None and os.getpid() != _owner:
        return
    if _scratch and os.path.isdir(_scratch) and not os.environ.get("VERIF_KEEP_SCRATCH"):
        shutil.rmtree(_scratch, ignore_errors=True)
    _scratch = None


def env():
    e = dict(os.environ)
    e["CARGO_NET_OFFLINE"] = "true"
    e.pop("RUSTFLAGS", None)
    e.setdefault("CARGO_TERM_COLOR", "never")
    return e


def harness_entries(props_cfgs):
    """names of harness entry points defined (by the harness! macro) in the harness files of the given cfgs"""
    names = []
    for f in sorted(glob.glob(os.path.join(VERIF, "harness", "*.rs"))):
        src = open(f).read()
        modname = os.path.basename(f)[:-3]
        for m in re.finditer(r"^\s*harness!\s*\(\s*(\w+)\s*,\s*(\w+)", src, re.M):
            names.append((modname, m.group(1), m.group(2)))
    return names


def prepare_copy(name, cfgs, extra_gen=None):
    """rsync /repo into scratch/<name>, inject the harness module; returns the copy's path"""
    root = os.path.join(scratch(), name)
    os.makedirs(root, exist_ok=True)
    subprocess.check_call(["rsync", "-a", "--delete", "--exclude", "/target", "--exclude", "/.git", "--exclude", "/fuzz",
                           REPO + "/", root + "/"])
    hdst = os.path.join(root, "src", "verif_se")
    if os.path.isdir(hdst):
        shutil.rmtree(hdst)
    shutil.copytree(os.path.join(VERIF, "harness"), hdst)
    # generated reference tables (from /repo/tests/test_data) live next to the harness
    gen = os.path.join(hdst, "gen_tables.rs")
    if True:
        subprocess.check_call([sys.executable, os.path.join(VERIF, "tools", "gen_ref_index.py"),
                               os.path.join(root, "tests", "test_data"), os.path.join(root, "src"), gen])
    lib = os.path.join(root, "src", "lib.rs")
    s = open(lib).read()
    if "pub mod verif_se;" not in s:
        s += "\n#[cfg(verif_se)]\npub mod verif_se;\n"
        open(lib, "w").write(s)
    # replay runtime as an example of the scratch crate
    exdir = os.path.join(root, "examples")
    os.makedirs(exdir, exist_ok=True)
    rt = open(os.path.join(VERIF, "replay", "verif_replay.rs")).read()
    arms = []
    for modname, sym, fn in harness_entries(cfgs):
        if ("verif_" + modname.split("_")[0]) in cfgs:
            arms.append('        "%s" => encoding_rs::verif_se::%s::%s(),' % (sym, modname, fn))
    rt = rt.replace("        /*DISPATCH*/", "\n".join(arms))
    open(os.path.join(exdir, "verif_replay.rs"), "w").write(rt)
    return root


def cfg_flags(cfgs):
    out = []
    for c in ["verif_se", "hsivonen_encoding_rs_verif"] + list(cfgs):
        out += ["--cfg", c]
    return out


def build_ir(root, cfgs, flavour="release", features="std", log=None):
    """whole-program LLVM IR of the crate + harnesses; returns path of the .ll"""
    tdir = os.path.join(root, "target-ir-" + flavour + "-" + re.sub(r"\W", "_", features))
    cmd = ["cargo", "rustc", "--offline", "--lib", "--release", "--features", features, "--crate-type", "staticlib",
           "--target-dir", tdir, "--"] + cfg_flags(cfgs) + [
        "--emit=llvm-ir", "-C", "codegen-units=1", "-C", "panic=abort", "-C", "lto=fat",
        "-C", "no-vectorize-loops", "-C", "no-vectorize-slp", "-A", "warnings"]
    if flavour == "checked":
        cmd += ["-C", "debug-assertions=on", "-C", "overflow-checks=on"]
    t0 = time.time()
    p = subprocess.run(cmd, cwd=root, env=env(), stdout=subprocess.PIPE, stderr=subprocess.STDOUT, text=True)
    if p.returncode != 0:
        sys.stderr.write(p.stdout[-6000:])
        raise RuntimeError("IR build failed (%s)" % flavour)
    lls = glob.glob(os.path.join(tdir, "release", "deps", "encoding_rs-*.ll"))
    if len(lls) != 1:
        raise RuntimeError("expected one .ll, found %r" % lls)
    if log is not None:
        log.append("IR build %s/%s: %.1fs, %d bytes" % (flavour, features, time.time() - t0, os.path.getsize(lls[0])))
    return lls[0]


def build_replay(root, cfgs, profile="release", features="std"):
    """native replay binary (harness + real crate, unwinding panics); returns its path"""
    tdir = os.path.join(root, "target-replay" + ("" if features == "std" else "-" + re.sub(r"\W", "_", features)))
    e = env()
    e["RUSTFLAGS"] = " ".join(cfg_flags(cfgs)) + " -A warnings"
    cmd = ["cargo", "build", "--offline", "--example", "verif_replay", "--features", features, "--target-dir", tdir]
    if profile == "release":
        cmd.append("--release")
    p = subprocess.run(cmd, cwd=root, env=e, stdout=subprocess.PIPE, stderr=subprocess.STDOUT, text=True)
    if p.returncode != 0:
        sys.stderr.write(p.stdout[-6000:])
        raise RuntimeError("replay build failed")
    return os.path.join(tdir, profile, "examples", "verif_replay")
