"""Parallel execution of llsym jobs (one engine per worker process, module parsed once in the parent)."""
import os, sys, time, json, multiprocessing, traceback

HERE = os.path.dirname(os.path.abspath(__file__))
sys.path.insert(0, os.path.join(os.path.dirname(HERE), "llsym"))

_MODS = {}
_ENG = {}


def load_modules(paths):
    """parse IR modules in the parent (no z3 objects are created here, so forking afterwards is safe)"""
    import llparse
    for key, p in paths.items():
        _MODS[key] = llparse.parse_module(p)


def _run(job):
    try:
        import run as R
        import engine as E
        key = job.get("ir", "release")
        eng = _ENG.get(key)
        if eng is None:
            eng = _ENG[key] = E.Engine(_MODS[key], max_steps=job.get("max_steps", 3_000_000),
                                        solver_timeout_ms=job.get("solver_timeout_ms", 120000))
        eng.max_steps = job.get("max_steps", 3_000_000)
        opts = {k: job[k] for k in ("path_budget", "time_budget", "concrete") if k in job}
        res = R.run_job(_MODS[key], job["harness"], {int(k): v for k, v in job.get("params", {}).items()}, opts, engine=eng)
        res["job"] = job
        return res
    except Exception as e:
        return dict(job=job, harness=job["harness"], params=job.get("params", {}), status="engine-exception: %s" % e,
                    trace=traceback.format_exc()[-3000:], stats={}, solver={}, results=[], n_results=0, reached=[],
                    samples=[], funcs=[], wall=0.0)


def run_jobs(jobs, nproc=None, progress=None):
    nproc = nproc or int(os.environ.get("VERIF_JOBS", "0")) or min(16, os.cpu_count() or 4)
    nproc = max(1, min(nproc, len(jobs)))
    out = []
    if nproc == 1:
        for j in jobs:
            r = _run(j)
            out.append(r)
            if progress:
                progress(r)
        return out
    ctx = multiprocessing.get_context("fork")
    # long jobs first
    order = sorted(range(len(jobs)), key=lambda i: -jobs[i].get("weight", 1))
    with ctx.Pool(nproc, maxtasksperchild=None) as pool:
        for r in pool.imap_unordered(_run, [jobs[i] for i in order], chunksize=1):
            out.append(r)
            if progress:
                progress(r)
    return out
