"""Parallel execution of llsym jobs.  The IR modules are parsed (and all instructions pre-parsed) once in the
parent, which never touches z3; every job runs in its own forked child with a fresh engine and solver state,
an address-space limit and a wall-clock limit, so a runaway or out-of-memory job is reported as inconclusive
instead of taking the whole check down."""
import os, sys, time, json, traceback, resource, signal, tempfile, pickle

HERE = os.path.dirname(os.path.abspath(__file__))
sys.path.insert(0, os.path.join(os.path.dirname(HERE), "llsym"))

_MODS = {}


def load_modules(paths):
    import llparse
    for key, p in paths.items():
        m = llparse.parse_module(p)
        m.code.parse_all()
        _MODS[key] = m


def _child(job, outpath, mem_bytes):
    try:
        if mem_bytes:
            resource.setrlimit(resource.RLIMIT_AS, (mem_bytes, mem_bytes))
        import run as R
        import engine as E
        import z3
        z3.set_param("memory_max_size", int(mem_bytes / (1 << 20) * 0.8) if mem_bytes else 0)
        key = job.get("ir", "release")
        eng = E.Engine(_MODS[key], max_steps=job.get("max_steps", 3_000_000), solver_timeout_ms=job.get("solver_timeout_ms", 120000))
        eng.small_index_fork = job.get("small_index_fork", 0)
        opts = {k: job[k] for k in ("path_budget", "time_budget", "concrete") if k in job}
        res = R.run_job(_MODS[key], job["harness"], {int(k): v for k, v in job.get("params", {}).items()}, opts, engine=eng)
    except MemoryError:
        res = dict(status="out-of-memory (limit %d MB)" % (mem_bytes >> 20))
    except BaseException as e:
        res = dict(status="engine-exception: %s" % e, trace=traceback.format_exc()[-3000:])
    try:
        with open(outpath, "wb") as f:
            pickle.dump(res, f)
    finally:
        os._exit(0)


def _blank(job, status):
    return dict(job=job, harness=job["harness"], params=job.get("params", {}), status=status, stats={}, solver={}, results=[],
                n_results=0, reached=[], samples=[], funcs=[], stubs=[], wall=0.0)


def run_jobs(jobs, nproc=None, progress=None, mem_gb=None, deadline=None, hard_deadline=None, order=None):
    nproc = nproc or int(os.environ.get("VERIF_JOBS", "0")) or min(16, os.cpu_count() or 4)
    nproc = max(1, min(nproc, len(jobs) or 1))
    if mem_gb is None:
        try:
            total = os.sysconf("SC_PAGE_SIZE") * os.sysconf("SC_PHYS_PAGES")
        except Exception:
            total = 32 << 30
        mem_gb = max(2.0, min(8.0, total * 0.8 / nproc / (1 << 30)))
    mem_bytes = int(mem_gb * (1 << 30))
    tmpd = tempfile.mkdtemp(prefix="verif-jobs-")
    if order is not None:
        order = list(order)
    elif deadline is None:
        order = sorted(range(len(jobs)), key=lambda i: -jobs[i].get("weight", 1))
    else:
        # core jobs first (heaviest first), then the deep table in the order given; deep jobs are not started after the deadline
        order = sorted((i for i in range(len(jobs)) if jobs[i].get("core")), key=lambda i: -jobs[i].get("weight", 1)) + \
            [i for i in range(len(jobs)) if not jobs[i].get("core")]
    pending = list(order)
    running = {}     # pid -> (idx, outpath, t0, limit)
    out = []
    try:
        while pending or running:
            if deadline is not None and time.time() > deadline:
                pending = [i for i in pending if jobs[i].get("core")]
            if hard_deadline is not None and time.time() > hard_deadline and running:
                # the tier's wall budget is over: jobs still running are stopped and reported as not decided
                for p in list(running):
                    if not jobs[running[p][0]].get("core"):
                        try:
                            os.kill(p, signal.SIGKILL)
                        except ProcessLookupError:
                            pass
                        running[p] = running[p][:4] + ("tier",)
            while pending and len(running) < nproc:
                i = pending.pop(0)
                job = jobs[i]
                outpath = os.path.join(tmpd, "r%d.pkl" % i)
                pid = os.fork()
                if pid == 0:
                    _child(job, outpath, int(job["mem_gb"] * (1 << 30)) if job.get("mem_gb") else mem_bytes)
                # hard wall limit: the job's own time budget (checked between paths) plus slack for one long solver call
                limit = job.get("time_budget", 3600) + 300
                running[pid] = (i, outpath, time.time(), limit)
            # reap
            try:
                pid, status = os.waitpid(-1, os.WNOHANG)
            except ChildProcessError:
                pid = 0
            if pid == 0:
                now = time.time()
                for p, rec in list(running.items()):
                    (i, outpath, t0, limit) = rec[:4]
                    if now - t0 > limit:
                        try:
                            os.kill(p, signal.SIGKILL)
                        except ProcessLookupError:
                            pass
                time.sleep(0.05)
                continue
            if pid not in running:
                continue
            rec = running.pop(pid)
            i, outpath, t0, limit = rec[:4]
            tier_killed = len(rec) > 4
            job = jobs[i]
            res = None
            if os.path.exists(outpath):
                try:
                    with open(outpath, "rb") as f:
                        res = pickle.load(f)
                    os.unlink(outpath)
                except Exception:
                    res = None
            if res is None:
                why = "tier wall budget" if tier_killed else ("killed (wall limit %ds)" % limit if time.time() - t0 > limit else "worker died (signal %d, probably out of memory)" % (status & 0x7f))
                res = _blank(job, why)
            base = _blank(job, res.get("status", "?"))
            base.update(res)
            base["job"] = job
            if base.get("wall", 0) == 0:
                base["wall"] = time.time() - t0
            out.append(base)
            if progress:
                progress(base)
    finally:
        for p in running:
            try:
                os.kill(p, signal.SIGKILL)
            except Exception:
                pass
        try:
            for f in os.listdir(tmpd):
                os.unlink(os.path.join(tmpd, f))
            os.rmdir(tmpd)
        except Exception:
            pass
    return out
