// Native replay runtime: the harness code compiled with the real crate; the se_* intrinsics read the
// counterexample values from a file instead of being symbolic.
//   verif_replay <harness> <values-file>      values-file: "param k v" / "sym v" lines
// exit: 0 = harness ran to completion (or ended in an expected panic), 3 = se_assert failed,
//       4 = se_assume false (replay diverged), 5 = unexpected panic
use std::cell::RefCell;
use std::io::Write;

struct St {
    syms: Vec<u64>,
    next: usize,
    params: Vec<(u32, u64)>,
    outs: Vec<u64>,
    expect_panic: u32,
    reached: Vec<u32>,
}

thread_local! {
    static ST: RefCell<St> = RefCell::new(St { syms: Vec::new(), next: 0, params: Vec::new(), outs: Vec::new(), expect_panic: 0, reached: Vec::new() });
}

fn next_sym() -> u64 {
    ST.with(|s| {
        let mut s = s.borrow_mut();
        let i = s.next;
        s.next += 1;
        if i < s.syms.len() { s.syms[i] } else { 0 }
    })
}

fn flush_outs() {
    ST.with(|s| {
        let s = s.borrow();
        let mut o = std::io::stdout();
        let _ = write!(o, "SE-OUT");
        for v in s.outs.iter() { let _ = write!(o, " {}", v); }
        let _ = writeln!(o);
        let _ = write!(o, "SE-REACH");
        for v in s.reached.iter() { let _ = write!(o, " {}", v); }
        let _ = writeln!(o);
        let _ = o.flush();
    });
}

#[unsafe(no_mangle)] pub extern "C" fn se_sym_u8(_tag: u32) -> u8 { next_sym() as u8 }
#[unsafe(no_mangle)] pub extern "C" fn se_sym_u16(_tag: u32) -> u16 { next_sym() as u16 }
#[unsafe(no_mangle)] pub extern "C" fn se_sym_u32(_tag: u32) -> u32 { next_sym() as u32 }
#[unsafe(no_mangle)] pub extern "C" fn se_sym_u64(_tag: u32) -> u64 { next_sym() }
#[unsafe(no_mangle)] pub extern "C" fn se_param(k: u32) -> u64 {
    ST.with(|s| s.borrow().params.iter().find(|p| p.0 == k).map(|p| p.1).unwrap_or(0))
}
#[unsafe(no_mangle)] pub extern "C" fn se_assume(c: bool) {
    if !c { flush_outs(); println!("SE-ASSUME-FALSE"); std::process::exit(4); }
}
#[unsafe(no_mangle)] pub extern "C" fn se_assert(c: bool, id: u32) {
    if !c { flush_outs(); println!("SE-ASSERT-FAIL {}", id); std::process::exit(3); }
}
#[unsafe(no_mangle)] pub extern "C" fn se_reach(id: u32) { ST.with(|s| s.borrow_mut().reached.push(id)); }
#[unsafe(no_mangle)] pub extern "C" fn se_out(v: u64) { ST.with(|s| s.borrow_mut().outs.push(v)); }
#[unsafe(no_mangle)] pub extern "C" fn se_expect_panic(id: u32) { ST.with(|s| s.borrow_mut().expect_panic = id); }
#[unsafe(no_mangle)] pub extern "C" fn se_concretize(v: u64) -> u64 { v }
#[unsafe(no_mangle)] pub extern "C" fn se_uninit(_p: *mut u8, _n: usize) {}
#[unsafe(no_mangle)] pub extern "C" fn se_is_init(_p: *const u8, _n: usize) -> bool { true }
#[unsafe(no_mangle)] pub extern "C" fn se_addr(p: *const u8) -> u64 { p as usize as u64 }

fn dispatch(name: &str) {
    match name {
        /*DISPATCH*/
        _ => { println!("SE-NO-SUCH-HARNESS {}", name); std::process::exit(9); }
    }
}

fn main() {
    let args: Vec<String> = std::env::args().collect();
    if args.len() < 3 { eprintln!("usage: verif_replay <harness> <values-file>"); std::process::exit(9); }
    let text = std::fs::read_to_string(&args[2]).expect("values file");
    ST.with(|s| {
        let mut s = s.borrow_mut();
        for line in text.lines() {
            let f: Vec<&str> = line.split_whitespace().collect();
            if f.len() == 3 && f[0] == "param" { s.params.push((f[1].parse().unwrap(), f[2].parse().unwrap())); }
            if f.len() == 2 && f[0] == "sym" { s.syms.push(f[1].parse().unwrap()); }
        }
    });
    let name = args[1].clone();
    let r = std::panic::catch_unwind(move || dispatch(&name));
    flush_outs();
    match r {
        Ok(()) => { println!("SE-DONE"); }
        Err(e) => {
            let msg = if let Some(s) = e.downcast_ref::<&str>() { s.to_string() } else if let Some(s) = e.downcast_ref::<String>() { s.clone() } else { String::from("?") };
            let exp = ST.with(|s| s.borrow().expect_panic);
            if exp != 0 { println!("SE-EXPECTED-PANIC {} {}", exp, msg); }
            else { println!("SE-PANIC {}", msg); std::process::exit(5); }
        }
    }
}
